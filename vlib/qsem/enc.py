"""Engine T: z3 encoding of query ASTs under the reference semantics R (DESIGN.md 2.3).

Values at the meta level:
  z3 Int / Bool / Obj(uninterpreted sort) / Str(uninterpreted sort) expressions
  tuple (tuple and list literals: positional records), dict (dict literal with constant keys: named record)
  Seq   (list of (guard, value) slots; the sequence is the sub-list of slots whose guard holds)
  Fun   (closure), NoneV, Result(tag, inner, literals), Poison (value of an erroneous sub-evaluation)
Errors are collected as z3 Bool causes (path condition AND cause) in Ctx.errs.
"""
import ast
import inspect
import itertools

import z3

Obj = z3.DeclareSort("Obj")
StrS = z3.DeclareSort("Str")
FltS = z3.DeclareSort("Flt")
SORT = {"i": z3.IntSort(), "b": z3.BoolSort(), "o": Obj, "s": StrS, "f": FltS}

OPERATORS = {"Select", "Where", "SelectMany", "First", "Count", "len", "Sum", "Max", "Min", "Aggregate", "MetaData"}
RESULTS = {"ResultTTree", "ResultAwkwardArray", "ResultPandasDF", "ResultParquet"}


class EncodingError(Exception):
    "the program is outside the encodable (well-typed, supported) subset"


MAX_SLOTS = 40


class Seq:
    def __init__(self, slots):
        if len(slots) > MAX_SLOTS:
            # nested conditionals / concat-maps multiply the guarded slots: beyond this size the query is not worth posing
            raise EncodingError("sequence with more than %d guarded slots" % MAX_SLOTS)
        self.slots = slots


class Fun:
    """closure; params = positional-capable names (positional-only first) followed by keyword-only names; npos = how many of them can be
    given positionally, nposonly = how many only positionally; vararg / kwarg = names of *args / **kwargs (or None)"""

    def __init__(self, params, body, env, defaults=None, npos=None, nposonly=0, vararg=None, kwarg=None):
        self.params, self.body, self.env, self.defaults = params, body, env, defaults or {}
        self.npos = len(params) if npos is None else npos
        self.nposonly, self.vararg, self.kwarg = nposonly, vararg, kwarg


class _None:
    def __repr__(self):
        return "NoneV"


NoneV = _None()


class _Poison:
    def __repr__(self):
        return "Poison"


Poison = _Poison()


class Result:
    def __init__(self, tag, inner, lits):
        self.tag, self.inner, self.lits = tag, inner, lits


class PyFunc:
    "a captured Python function left as a call by name: interpreted by its own return expression"

    def __init__(self, fun):
        self.fun = fun


def rtype(name):
    "result type of an opaque attribute/method/function from its name prefix (generated programs)"
    n = name
    if n.startswith("fn_"):
        n = n[3:]
    if n.startswith("so_"):
        return "so"
    if n.startswith("si_"):
        return "si"
    if n.startswith("ss_"):
        return "sso"      # sequence of sequences of objects
    if n[:2] in ("i_", "b_", "o_"):
        return n[0]
    return None


class Ctx:
    def __init__(self, N=2, sigs=None, rtypes=None):
        self.N = N
        self.side = []          # side conditions (length bounds, distinctness of interned constants)
        self.errs = []          # error causes (already conjoined with their path condition)
        self.ufs = {}
        self.strs = {}
        self.flts = {}
        self.sigs = sigs or {}  # opaque name -> inspect.Signature (defaults/keywords normalised before the UF is applied)
        self.rtypes = rtypes or {}   # opaque name -> result type code, overrides the prefix convention
        self.lens = []          # length terms of the dataset and of every opaque collection (for non-trivial witnesses)
        self.used = set()       # (kind, name, nargs) of opaque symbols met (for the concrete replay world)
        self.nfresh = 0

    def uf(self, key, *sorts):
        k = (key, tuple(str(s) for s in sorts))
        if k not in self.ufs:
            self.ufs[k] = z3.Function("%s!%d" % (key, len(self.ufs)), *sorts)
        return self.ufs[k]

    def str_const(self, s):
        if s not in self.strs:
            self.strs[s] = z3.Const("str!%d" % len(self.strs), StrS)
        return self.strs[s]

    def flt_const(self, f):
        k = repr(f)
        if k not in self.flts:
            self.flts[k] = z3.Const("flt!%d" % len(self.flts), FltS)
        return self.flts[k]

    def distinctness(self):
        out = []
        if len(self.strs) > 1:
            out.append(z3.Distinct(*self.strs.values()))
        if len(self.flts) > 1:
            out.append(z3.Distinct(*self.flts.values()))
        return out

    def err(self, pc, cause=True):
        c = z3.And(pc, cause) if cause is not True else pc
        self.errs.append(c)

    def take_errs(self):
        e, self.errs = self.errs, []
        return e


def is_z3(v):
    return isinstance(v, z3.ExprRef)


_INT, _BOOL = z3.IntSort(), z3.BoolSort()


def is_int(v):
    return is_z3(v) and z3.is_int(v)


def is_bool(v):
    return is_z3(v) and z3.is_bool(v)


def as_bool(v):
    if is_bool(v):
        return v
    raise EncodingError("boolean expected, got %r" % (v,))


def as_int(v):
    if is_int(v):
        return v
    if is_bool(v):
        return z3.If(v, z3.IntVal(1), z3.IntVal(0))
    raise EncodingError("integer expected, got %r" % (v,))


def ite(c, a, b):
    if a is Poison:
        return b
    if b is Poison:
        return a
    if isinstance(a, tuple) and isinstance(b, tuple) and len(a) == len(b):
        return tuple(ite(c, x, y) for x, y in zip(a, b))
    if isinstance(a, dict) and isinstance(b, dict) and list(a.keys()) == list(b.keys()):
        return {k: ite(c, a[k], b[k]) for k in a}
    if isinstance(a, Seq) and isinstance(b, Seq):
        return Seq([(z3.And(c, g), v) for g, v in a.slots] + [(z3.And(z3.Not(c), g), v) for g, v in b.slots])
    if a is NoneV and b is NoneV:
        return NoneV
    if is_z3(a) and is_z3(b):
        if a.sort() == b.sort():
            return z3.If(c, a, b)
        if {a.sort(), b.sort()} == {z3.IntSort(), z3.BoolSort()}:
            return z3.If(c, as_int(a), as_int(b))
    if isinstance(a, Result) and isinstance(b, Result) and a.tag == b.tag:
        return Result(a.tag, ite(c, a.inner, b.inner), a.lits)
    raise EncodingError("cannot merge values of different shapes: %r / %r" % (a, b))


def opaque(cx, kind, name, args, pc):
    """apply the uninterpreted symbol `name` (kind 'attr' | 'meth' | 'func') to already evaluated arguments (receiver first)"""
    rt = cx.rtypes.get(name) or rtype(name)
    if rt is None:
        raise EncodingError("opaque symbol without a declared result type: %s" % name)
    for a in args:
        if not is_z3(a):
            raise EncodingError("opaque symbol %s applied to a structured value" % name)
    cx.used.add((kind, name, len(args)))
    key = "%s.%s/%d" % (kind, name, len(args))
    sorts = [a.sort() for a in args]
    if rt in ("so", "si", "sso"):
        ln = cx.uf(key + ".len", *sorts, z3.IntSort())(*args) if args else z3.Int(key + ".len")
        cx.side.append(z3.And(ln >= 0, ln <= cx.N))
        cx.lens.append(ln)
        if rt == "sso":
            slots = []
            for k in range(cx.N):
                inner_ln = cx.uf(key + ".ilen", *sorts, z3.IntSort(), z3.IntSort())(*args, z3.IntVal(k))
                cx.side.append(z3.And(inner_ln >= 0, inner_ln <= cx.N))
                el = cx.uf(key + ".ielt", *sorts, z3.IntSort(), z3.IntSort(), Obj)
                slots.append((z3.IntVal(k) < ln, Seq([(z3.IntVal(m) < inner_ln, el(*args, z3.IntVal(k), z3.IntVal(m))) for m in range(cx.N)])))
            return Seq(slots)
        es = SORT["o" if rt == "so" else "i"]
        el = cx.uf(key + ".elt", *sorts, z3.IntSort(), es)
        return Seq([(z3.IntVal(k) < ln, el(*args, z3.IntVal(k))) for k in range(cx.N)])
    if not args:
        return z3.Const(key, SORT[rt])
    return cx.uf(key, *sorts, SORT[rt])(*args)


def normalise_call(cx, name, args, kwargs):
    "bind positional/keyword arguments of an opaque call through its declared signature (if any) and fill in defaults"
    sig = cx.sigs.get(name)
    if sig is None:
        if kwargs:
            # no signature known: keywords are ordered by name after the positionals (same on both sides)
            return list(args) + [kwargs[k] for k in sorted(kwargs)]
        return list(args)
    params = [p for p in sig.parameters.values() if p.name != "self"]
    try:
        ba = inspect.Signature(params).bind(*args, **kwargs)
    except TypeError as e:
        raise EncodingError("call of %s does not bind: %s" % (name, e))
    out = []
    for p in params:
        if p.name in ba.arguments:
            out.append(ba.arguments[p.name])
        elif p.default is not p.empty:
            out.append(("default", p.default))
        else:
            raise EncodingError("missing argument %s of %s" % (p.name, name))
    return out


def const_value(cx, v):
    if isinstance(v, bool) and cx is None:
        return z3.BoolVal(v)
    if isinstance(v, int) and cx is None:
        return z3.IntVal(v)
    if isinstance(v, bool):
        return z3.BoolVal(v)
    if isinstance(v, int):
        return z3.IntVal(v)
    if isinstance(v, str):
        return cx.str_const(v)
    if isinstance(v, float):
        return cx.flt_const(v)
    if v is None:
        return NoneV
    if isinstance(v, (tuple, list)):
        return tuple(const_value(cx, x) for x in v)
    if isinstance(v, dict):
        return {k: const_value(cx, x) for k, x in v.items()}
    raise EncodingError("constant of unsupported type %s" % type(v).__name__)


def count(seq):
    if not seq.slots:
        return z3.IntVal(0)
    return z3.Sum([z3.If(g, 1, 0) for g, _ in seq.slots])


def first(cx, seq, pc):
    if not seq.slots:
        cx.err(pc)
        return Poison
    cx.err(pc, z3.Not(z3.Or([g for g, _ in seq.slots])))
    r = seq.slots[-1][1]
    for g, v in reversed(seq.slots[:-1]):
        r = ite(g, v, r)
    return r


def need_seq(v, what):
    if isinstance(v, Seq):
        return v
    if isinstance(v, Result):
        raise EncodingError("%s applied to a result wrapper" % what)
    raise EncodingError("%s applied to a non-sequence: %r" % (what, v))


def need_fun(v, what):
    if isinstance(v, Fun):
        return v
    raise EncodingError("%s needs a lambda, got %r" % (what, v))


def call_fun(cx, f, args, kwargs, pc):
    "binds as python binds; a call python would refuse (TypeError) is not encodable"
    extra = ()
    if len(args) > f.npos:
        if f.vararg is None:
            raise EncodingError("too many arguments for lambda")
        extra, args = tuple(args[f.npos:]), args[:f.npos]
    bound = dict(zip(f.params, args))
    kwextra = {}
    for k, v in kwargs.items():
        if k in f.params[f.nposonly:] and k not in bound:
            bound[k] = v
        elif f.kwarg is not None and k not in f.params[f.nposonly:]:
            kwextra[k] = v
        else:
            raise EncodingError("bad keyword argument %s" % k)
    if f.vararg is not None:
        bound[f.vararg] = extra
    if f.kwarg is not None:
        bound[f.kwarg] = kwextra
    for p in f.params:
        if p not in bound:
            if p in f.defaults and f.defaults[p] is not None:
                bound[p] = f.defaults[p]
            else:
                raise EncodingError("missing argument %s" % p)
    env = dict(f.env)
    env.update(bound)
    return ev(cx, f.body, env, pc)


def seq_op(cx, op, seq, fargs, pc):
    if op in ("Select", "Where", "SelectMany"):
        if len(fargs) != 1:
            raise EncodingError("%s takes one lambda" % op)
        seq = need_seq(seq, op)
        f = need_fun(fargs[0], op)
        out = []
        for g, v in seq.slots:
            r = call_fun(cx, f, [v], {}, z3.And(pc, g))
            if op == "Select":
                out.append((g, r))
            elif op == "Where":
                out.append((z3.And(g, as_bool(r)) if r is not Poison else z3.BoolVal(False), v))
            else:
                if r is Poison:
                    continue
                inner = need_seq(r, "SelectMany body")
                out += [(z3.And(g, g2), v2) for g2, v2 in inner.slots]
        return Seq(out)
    if op in ("Count", "len"):
        if fargs:
            raise EncodingError("Count takes no argument")
        return count(need_seq(seq, op))
    if op == "First":
        if fargs:
            raise EncodingError("First takes no argument")
        return first(cx, need_seq(seq, op), pc)
    if op == "Sum":
        seq = need_seq(seq, op)
        return z3.Sum([z3.If(g, as_int(v), 0) for g, v in seq.slots]) if seq.slots else z3.IntVal(0)
    if op in ("Max", "Min"):
        seq = need_seq(seq, op)
        acc = z3.IntVal(0)
        for g, v in seq.slots:
            v = as_int(v)
            better = (v > acc) if op == "Max" else (v < acc)
            acc = z3.If(z3.And(g, better), v, acc)
        return acc
    if op == "Aggregate":
        if len(fargs) != 2:
            raise EncodingError("Aggregate(seq, init, f)")
        seq = need_seq(seq, op)
        acc, f = fargs[0], need_fun(fargs[1], op)
        for g, v in seq.slots:
            step = call_fun(cx, f, [acc, v], {}, z3.And(pc, g))
            acc = ite(g, step, acc)
        return acc
    if op == "MetaData":
        return seq
    raise EncodingError("operator %s" % op)


def index_value(cx, v, key, pc):
    "constant subscript / attribute-of-record"
    if v is Poison:
        return Poison
    if isinstance(v, tuple):
        if isinstance(key, bool) or not isinstance(key, int):
            raise EncodingError("non-integer index into a positional record")
        if -len(v) <= key < len(v):
            return v[key]
        cx.err(pc)
        return Poison
    if isinstance(v, dict):
        if type(key) in (str, int, bool) and key in v:     # python's key equality: 1, True (and 1.0) are one key
            return v[key]
        cx.err(pc)
        return Poison
    if isinstance(v, Seq):
        if isinstance(key, bool) or not isinstance(key, int) or key < 0:
            raise EncodingError("unsupported index into a sequence")
        # element of rank `key`
        rank = z3.IntVal(0)
        cands = []
        for g, x in v.slots:
            cands.append((z3.And(g, rank == key), x))
            rank = rank + z3.If(g, 1, 0)
        cx.err(pc, z3.Not(z3.Or([c for c, _ in cands])) if cands else True)
        if not cands:
            return Poison
        r = cands[-1][1]
        for c, x in reversed(cands[:-1]):
            r = ite(c, x, r)
        return r
    raise EncodingError("subscript of %r" % (v,))


def ev_args(cx, call, env, pc):
    args = []
    for a in call.args:
        if isinstance(a, ast.Starred):
            v = ev(cx, a.value, env, pc)
            if not isinstance(v, tuple):
                raise EncodingError("starred argument that is not a positional record")
            args += list(v)
            continue
        args.append(ev(cx, a, env, pc))
    kwargs = {}
    for k in call.keywords:
        if k.arg is None:
            raise EncodingError("**kwargs")
        kwargs[k.arg] = ev(cx, k.value, env, pc)
    return args, kwargs


def apply_opaque(cx, kind, name, recv, args, kwargs, pc):
    if any(a is Poison for a in ([recv] if recv is not None else []) + args + list(kwargs.values())):
        return Poison
    full = normalise_call(cx, name, args, kwargs)
    full = [const_value(cx, a[1]) if isinstance(a, tuple) and len(a) == 2 and a[0] == "default" else a for a in full]
    return opaque(cx, kind, name, ([recv] if recv is not None else []) + full, pc)


def ev(cx, n, env, pc):
    if isinstance(n, ast.Name):
        if n.id in env:
            return env[n.id]
        # unbound name: an error when (and only when) this point is reached
        cx.err(pc)
        return Poison
    if isinstance(n, ast.Constant):
        return const_value(cx, n.value)
    if isinstance(n, ast.Lambda):
        a = n.args
        pos = [x.arg for x in a.posonlyargs + a.args]
        params = pos + [x.arg for x in a.kwonlyargs]
        defaults = {}
        for p, d in zip(pos[len(pos) - len(a.defaults):], a.defaults):
            defaults[p] = ev(cx, d, env, pc)
        for x, d in zip(a.kwonlyargs, a.kw_defaults):
            if d is not None:
                defaults[x.arg] = ev(cx, d, env, pc)
        return Fun(params, n.body, env, defaults, npos=len(pos), nposonly=len(a.posonlyargs), vararg=a.vararg.arg if a.vararg else None, kwarg=a.kwarg.arg if a.kwarg else None)
    if isinstance(n, (ast.Tuple, ast.List)):
        out = []
        for e in n.elts:
            if isinstance(e, ast.Starred):
                v = ev(cx, e.value, env, pc)
                if not isinstance(v, tuple):
                    raise EncodingError("starred element that is not a positional record")
                out += list(v)
            else:
                out.append(ev(cx, e, env, pc))
        return tuple(out)
    if isinstance(n, ast.Dict):
        out = {}
        for k, v in zip(n.keys, n.values):
            if not isinstance(k, ast.Constant) or type(k.value) not in (str, int, bool):
                raise EncodingError("dict literal with a non-constant key")
            out[k.value] = ev(cx, v, env, pc)
        return out
    if isinstance(n, ast.Subscript):
        v = ev(cx, n.value, env, pc)
        s = n.slice
        if isinstance(s, ast.UnaryOp) and isinstance(s.op, ast.USub) and isinstance(s.operand, ast.Constant) and type(s.operand.value) is int:
            return index_value(cx, v, -s.operand.value, pc)
        if isinstance(s, ast.Constant):
            return index_value(cx, v, s.value, pc)
        if isinstance(s, ast.Slice) and isinstance(v, tuple):
            def bound(b):
                "constant slice bound: None, an int constant or a negated int constant; anything else is not encodable"
                if b is None:
                    return None
                if isinstance(b, ast.Constant) and type(b.value) is int:
                    return b.value
                if isinstance(b, ast.UnaryOp) and isinstance(b.op, ast.USub) and isinstance(b.operand, ast.Constant) and type(b.operand.value) is int:
                    return -b.operand.value
                raise EncodingError("slice with a non-constant bound")
            lo, hi, st = bound(s.lower), bound(s.upper), bound(s.step)
            if st == 0:
                cx.err(pc)
                return Poison
            return v[lo:hi:st]
        if isinstance(v, tuple) and len(v) > 0:
            # variable index into a positional record: all elements must merge
            i = as_int(ev(cx, s, env, pc))
            ln = len(v)
            cx.err(pc, z3.Or(i >= ln, i < -ln))
            r = v[-1]
            for k in range(ln - 2, -1, -1):
                r = ite(z3.Or(i == k, i == k - ln), v[k], r)
            return r
        raise EncodingError("unsupported subscript")
    if isinstance(n, ast.Attribute):
        v = ev(cx, n.value, env, pc)
        if v is Poison:
            return Poison
        if isinstance(v, dict):
            return index_value(cx, v, n.attr, pc)
        if is_z3(v) and v.sort() == Obj:
            return opaque(cx, "attr", n.attr, [v], pc)
        raise EncodingError("attribute %s of %r" % (n.attr, v))
    if isinstance(n, ast.UnaryOp):
        v = ev(cx, n.operand, env, pc)
        if v is Poison:
            return Poison
        if isinstance(n.op, ast.Not):
            return z3.Not(as_bool(v))
        if isinstance(n.op, ast.USub):
            return -as_int(v)
        if isinstance(n.op, ast.UAdd):
            return as_int(v)
        raise EncodingError("unary operator")
    if isinstance(n, ast.BinOp):
        a, b = ev(cx, n.left, env, pc), ev(cx, n.right, env, pc)
        if a is Poison or b is Poison:
            return Poison
        a, b = as_int(a), as_int(b)
        if isinstance(n.op, ast.Add):
            return a + b
        if isinstance(n.op, ast.Sub):
            return a - b
        if isinstance(n.op, ast.Mult):
            if z3.is_int_value(a) or z3.is_int_value(b):
                return a * b
            raise EncodingError("product of two non-constant integers")
        raise EncodingError("binary operator %s" % type(n.op).__name__)
    if isinstance(n, ast.Compare):
        left = ev(cx, n.left, env, pc)
        res = None
        cur = pc
        for op, rn in zip(n.ops, n.comparators):
            right = ev(cx, rn, env, cur)
            if left is Poison or right is Poison:
                return Poison
            if isinstance(op, (ast.Eq, ast.NotEq)):
                if is_z3(left) and is_z3(right) and left.sort() != right.sort():
                    if {left.sort(), right.sort()} == {z3.IntSort(), z3.BoolSort()}:
                        c = as_int(left) == as_int(right)
                    else:
                        c = z3.BoolVal(False)
                elif is_z3(left) and is_z3(right):
                    c = left == right
                else:
                    raise EncodingError("== on structured values")
                if isinstance(op, ast.NotEq):
                    c = z3.Not(c)
            else:
                a, b = as_int(left), as_int(right)
                c = {ast.Gt: a > b, ast.Lt: a < b, ast.GtE: a >= b, ast.LtE: a <= b}.get(type(op))
                if c is None:
                    raise EncodingError("comparison operator %s" % type(op).__name__)
            res = c if res is None else z3.And(res, c)
            cur = z3.And(cur, c)
            left = right
        return res
    if isinstance(n, ast.NamedExpr):
        # (name := value): binds the name for what is evaluated afterwards in the same scope (env dictionaries are per lambda call /
        # per comprehension element); a binding made in a branch that short-circuits away is over-approximated as made
        if not isinstance(n.target, ast.Name):
            raise EncodingError("assignment expression target")
        v = ev(cx, n.value, env, pc)
        env[n.target.id] = v
        return v
    if isinstance(n, ast.BoolOp):
        acc = None
        cur = pc
        for e in n.values:
            v = ev(cx, e, env, cur)
            if v is Poison:
                # an erroneous operand that is reached: the whole expression is erroneous there; keep going with False
                v = z3.BoolVal(False)
            v = as_bool(v)
            if isinstance(n.op, ast.And):
                acc = v if acc is None else z3.And(acc, v)
                cur = z3.And(cur, v)
            else:
                acc = v if acc is None else z3.Or(acc, v)
                cur = z3.And(cur, z3.Not(v))
        return acc
    if isinstance(n, ast.IfExp):
        c = ev(cx, n.test, env, pc)
        if c is Poison:
            return Poison
        if is_int(c):
            c = c != 0      # python truth of an int
        c = as_bool(c)
        return ite(c, ev(cx, n.body, env, z3.And(pc, c)), ev(cx, n.orelse, env, z3.And(pc, z3.Not(c))))
    if isinstance(n, (ast.ListComp, ast.GeneratorExp)):
        return comprehension(cx, n.elt, n.generators, env, pc)
    if isinstance(n, ast.Call):
        return ev_call(cx, n, env, pc)
    raise EncodingError("unsupported node %s" % type(n).__name__)


def comprehension(cx, elt, gens, env, pc):
    g0 = gens[0]
    if g0.is_async or not isinstance(g0.target, ast.Name):
        raise EncodingError("comprehension target")
    src = need_seq(ev(cx, g0.iter, env, pc), "comprehension")
    out = []
    for g, v in src.slots:
        e2 = dict(env)
        e2[g0.target.id] = v
        cur = z3.And(pc, g)
        keep = g
        for cond in g0.ifs:
            c = ev(cx, cond, e2, cur)
            c = z3.BoolVal(False) if c is Poison else as_bool(c)
            keep = z3.And(keep, c)
            cur = z3.And(cur, c)
        if len(gens) > 1:
            inner = comprehension(cx, elt, gens[1:], e2, cur)
            out += [(z3.And(keep, g2), v2) for g2, v2 in inner.slots]
        else:
            out.append((keep, ev(cx, elt, e2, cur)))
    return Seq(out)


OP_PARAM = {"Select": "f", "SelectMany": "func", "Where": "filter"}     # the one parameter of the stream operators, as ObjectStream names it


def seq_op_kw(cx, op, seq, pos_args, keywords, env, pc):
    "operator call that hands its lambda over by keyword: Op(seq, f=lambda ...) / seq.Op(f=lambda ...)"
    if op not in OP_PARAM or pos_args or len(keywords) != 1 or keywords[0].arg != OP_PARAM[op]:
        raise EncodingError("operator call with keywords")
    if seq is Poison:
        return Poison
    return seq_op(cx, op, seq, [ev(cx, keywords[0].value, env, pc)], pc)


def ev_call(cx, n, env, pc):
    f = n.func
    # operators, function form: Op(seq, ...)
    if isinstance(f, ast.Name) and f.id not in env and (f.id in OPERATORS or f.id in RESULTS):
        if not n.args:
            raise EncodingError("operator call shape")
        if any(isinstance(a, ast.Starred) for a in n.args):
            # Op(*(seq,), f): python unpacks the positional record first
            flat, _ = ev_args(cx, ast.Call(f, n.args, []), env, pc)
            if not flat or n.keywords or f.id in RESULTS or f.id == "MetaData":
                raise EncodingError("operator call shape")
            if flat[0] is Poison:
                return Poison
            if isinstance(flat[0], tuple) and f.id in ("len", "Count"):
                return z3.IntVal(len(flat[0]))
            return seq_op(cx, f.id, flat[0], flat[1:], pc)
        if n.keywords:
            return seq_op_kw(cx, f.id, ev(cx, n.args[0], env, pc), n.args[1:], n.keywords, env, pc)
        if f.id in RESULTS:
            inner = ev(cx, n.args[0], env, pc)
            lits = []
            for a in n.args[1:]:
                try:
                    lits.append(repr(ast.literal_eval(a)))
                except Exception:
                    raise EncodingError("non-literal argument of a result wrapper")
            return Result(f.id, inner, tuple(lits))
        seq = ev(cx, n.args[0], env, pc)
        if seq is Poison:
            return Poison
        if f.id == "MetaData":
            return seq
        if isinstance(seq, tuple) and f.id in ("len", "Count"):
            return z3.IntVal(len(seq))
        return seq_op(cx, f.id, seq, [ev(cx, a, env, pc) for a in n.args[1:]], pc)
    # operators, method form: seq.Op(...)
    if isinstance(f, ast.Attribute) and f.attr in OPERATORS and f.attr != "len":
        recv = ev(cx, f.value, env, pc)
        if recv is Poison:
            return Poison
        if isinstance(recv, Seq):
            if n.keywords:
                return seq_op_kw(cx, f.attr, recv, n.args, n.keywords, env, pc)
            if f.attr == "MetaData":
                return recv
            return seq_op(cx, f.attr, recv, [ev(cx, a, env, pc) for a in n.args], pc)
        if is_z3(recv) and recv.sort() == Obj:
            args, kwargs = ev_args(cx, n, env, pc)
            return apply_opaque(cx, "meth", f.attr, recv, args, kwargs, pc)
        raise EncodingError("method %s on %r" % (f.attr, recv))
    if isinstance(f, ast.Attribute):
        recv = ev(cx, f.value, env, pc)
        if recv is Poison:
            return Poison
        if isinstance(recv, dict) and f.attr in recv and isinstance(recv[f.attr], Fun):
            args, kwargs = ev_args(cx, n, env, pc)
            return call_fun(cx, recv[f.attr], args, kwargs, pc)
        if not (is_z3(recv) and recv.sort() == Obj):
            raise EncodingError("method %s on %r" % (f.attr, recv))
        args, kwargs = ev_args(cx, n, env, pc)
        return apply_opaque(cx, "meth", f.attr, recv, args, kwargs, pc)
    if isinstance(f, ast.Name) and f.id not in env:
        if f.id == "abs" and len(n.args) == 1 and not n.keywords:
            v = ev(cx, n.args[0], env, pc)
            if v is Poison:
                return Poison
            v = as_int(v)
            return z3.If(v < 0, -v, v)
        args, kwargs = ev_args(cx, n, env, pc)
        if rtype(f.id) is None and f.id not in cx.rtypes:
            # a call of an unknown free name: error when reached (like any unbound name)
            cx.err(pc)
            return Poison
        return apply_opaque(cx, "func", f.id, None, args, kwargs, pc)
    # called value: lambda expression, curried call, name bound to a closure
    fv = ev(cx, f, env, pc)
    if fv is Poison:
        return Poison
    args, kwargs = ev_args(cx, n, env, pc)
    if isinstance(fv, Fun):
        return call_fun(cx, fv, args, kwargs, pc)
    raise EncodingError("call of %r" % (fv,))


def eq(a, b):
    "z3 Bool: the two values are equal (sequences by rank)"
    if a is Poison or b is Poison:
        return z3.BoolVal(a is b)
    if isinstance(a, tuple) or isinstance(b, tuple):
        if isinstance(a, tuple) and isinstance(b, tuple) and len(a) == len(b):
            return z3.And([eq(x, y) for x, y in zip(a, b)]) if a else z3.BoolVal(True)
        return z3.BoolVal(False)
    if isinstance(a, dict) or isinstance(b, dict):
        if isinstance(a, dict) and isinstance(b, dict) and set(a) == set(b):
            return z3.And([eq(a[k], b[k]) for k in a]) if a else z3.BoolVal(True)
        return z3.BoolVal(False)
    if isinstance(a, Seq) or isinstance(b, Seq):
        if not (isinstance(a, Seq) and isinstance(b, Seq)):
            return z3.BoolVal(False)

        def ranks(s):
            r, acc = [], z3.IntVal(0)
            for g, _ in s.slots:
                r.append(acc)
                acc = acc + z3.If(g, 1, 0)
            return r, acc
        ra, ca = ranks(a)
        rb, cb = ranks(b)
        cs = [ca == cb]
        for (ga, va), pa in zip(a.slots, ra):
            for (gb, vb), pb in zip(b.slots, rb):
                cs.append(z3.Implies(z3.And(ga, gb, pa == pb), eq(va, vb)))
        return z3.And(cs)
    if isinstance(a, Result) or isinstance(b, Result):
        if isinstance(a, Result) and isinstance(b, Result) and a.tag == b.tag and a.lits == b.lits:
            return eq(a.inner, b.inner)
        return z3.BoolVal(False)
    if a is NoneV or b is NoneV:
        return z3.BoolVal(a is b)
    if isinstance(a, Fun) or isinstance(b, Fun):
        raise EncodingError("comparison of closures")
    if is_z3(a) and is_z3(b):
        if a.sort() == b.sort():
            return a == b
        if {a.sort(), b.sort()} == {z3.IntSort(), z3.BoolSort()}:
            return as_int(a) == as_int(b)
        return z3.BoolVal(False)
    raise EncodingError("comparison of %r and %r" % (a, b))


def dataset(cx, name="ds"):
    ln = z3.Int(name + ".len")
    cx.side.append(z3.And(ln >= 0, ln <= cx.N))
    cx.lens.append(ln)
    return Seq([(z3.IntVal(k) < ln, z3.Const("%s.ev%d" % (name, k), Obj)) for k in range(cx.N)])


def encode(cx, tree, env):
    "-> (value, error causes)"
    cx.take_errs()
    v = ev(cx, tree, dict(env), z3.BoolVal(True))
    return v, cx.take_errs()
