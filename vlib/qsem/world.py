"""Concrete side of engine T: a solver model becomes an in-memory dataset of Python objects, and query ASTs are run on
it by CPython's own eval (eager list semantics and a lazy generator variant)."""
import ast
import copy
import functools
import inspect

import z3

from vlib.qsem import enc


class CObj:
    "an opaque item of the model's universe; attributes and methods answer from the model's function interpretations"

    def __init__(self, world, zval):
        object.__setattr__(self, "_w", world)
        object.__setattr__(self, "_z", zval)

    def __eq__(self, other):
        return isinstance(other, CObj) and str(self._z) == str(other._z)

    def __ne__(self, other):
        return not self.__eq__(other)

    def __hash__(self):
        return hash(str(self._z))

    def __repr__(self):
        return "<%s>" % self._z

    def __getattr__(self, name):
        w = self._w
        if name.startswith("__"):
            raise AttributeError(name)
        kinds = {k for (k, n, _) in w.cx.used if n == name}
        if "meth" in kinds and "attr" in kinds:
            raise enc.EncodingError("name %s used both as attribute and as method" % name)
        if "meth" in kinds or ("attr" not in kinds and name in w.cx.sigs):
            return lambda *a, **kw: w.apply("meth", name, self, a, kw)
        return w.apply("attr", name, self, (), {})


class World:
    def __init__(self, cx, model, lazy=False):
        self.cx, self.model, self.lazy = cx, model, lazy

    # ---- python value <-> z3
    def to_z3(self, v):
        if isinstance(v, CObj):
            return v._z
        if isinstance(v, bool):
            return z3.BoolVal(v)
        if isinstance(v, int):
            return z3.IntVal(v)
        if isinstance(v, str):
            return self.cx.str_const(v)
        if isinstance(v, float):
            return self.cx.flt_const(v)
        raise enc.EncodingError("cannot pass %r to an opaque symbol" % (v,))

    def py(self, zv):
        "python value of a (structured) encoder value under the model"
        m = self.model
        if zv is enc.NoneV:
            return None
        if isinstance(zv, tuple):
            return tuple(self.py(x) for x in zv)
        if isinstance(zv, dict):
            return {k: self.py(x) for k, x in zv.items()}
        if isinstance(zv, enc.Seq):
            out = []
            for g, v in zv.slots:
                if z3.is_true(m.eval(g, model_completion=True)):
                    out.append(self.py(v))
            return self.mkseq(out)
        if isinstance(zv, enc.Result):
            return ("Result", zv.tag, self.py(zv.inner), zv.lits)
        if zv is enc.Poison:
            raise enc.EncodingError("poison value reached")
        e = m.eval(zv, model_completion=True)
        s = e.sort()
        if s == z3.IntSort():
            return e.as_long()
        if s == z3.BoolSort():
            return z3.is_true(e)
        if s == enc.Obj:
            return CObj(self, e)
        if s == enc.StrS:
            for k, c in self.cx.strs.items():
                if str(m.eval(c, model_completion=True)) == str(e):
                    return k
            return "<str %s>" % e
        if s == enc.FltS:
            for k, c in self.cx.flts.items():
                if str(m.eval(c, model_completion=True)) == str(e):
                    return float(k)
            return "<flt %s>" % e
        raise enc.EncodingError("sort %s" % s)

    def mkseq(self, items):
        return ZSeq(lambda: iter(items)) if self.lazy else LSeq(items)

    def apply(self, kind, name, recv, a, kw):
        full = enc.normalise_call(self.cx, name, list(a), dict(kw))
        full = [x[1] if isinstance(x, tuple) and len(x) == 2 and x[0] == "default" else x for x in full]
        zargs = ([recv._z] if recv is not None else []) + [self.to_z3(x) for x in full]
        term = enc.opaque(self.cx, kind, name, zargs, z3.BoolVal(True))
        return self.py(term)

    def dataset(self, name="ds"):
        n = self.model.eval(z3.Int(name + ".len"), model_completion=True).as_long()
        n = max(0, min(n, self.cx.N))
        return self.mkseq([CObj(self, self.model.eval(z3.Const("%s.ev%d" % (name, k), enc.Obj), model_completion=True)) for k in range(n)])

    def env(self, extra=None):
        S = ZSeq if self.lazy else LSeq
        e = {
            "ds": self.dataset(),
            "Select": lambda s, f: S.of(s).Select(f), "Where": lambda s, filter: S.of(s).Where(filter), "SelectMany": lambda s, func: S.of(s).SelectMany(func),     # parameter names as in ObjectStream
            "First": lambda s: S.of(s).First(), "Count": lambda s: S.of(s).Count(), "Sum": lambda s: S.of(s).Sum(),
            "Max": lambda s: S.of(s).Max(), "Min": lambda s: S.of(s).Min(), "Aggregate": lambda s, i, f: S.of(s).Aggregate(i, f),
            "MetaData": lambda s, d: s, "len": lambda s: len(s) if isinstance(s, (tuple, dict)) else S.of(s).Count(), "abs": abs,
        }
        for tag in enc.RESULTS:
            e[tag] = (lambda t: lambda s, *lits: ("Result", t, s, tuple(repr(x) for x in lits)))(tag)
        for (kind, name, _) in self.cx.used:
            if kind == "func":
                e[name] = (lambda nm: lambda *a, **kw: self.apply("func", nm, None, a, kw))(name)
        for name in self.cx.sigs:
            e.setdefault(name, (lambda nm: lambda *a, **kw: self.apply("func", nm, None, a, kw))(name))
        if extra:
            e.update(extra)
        return e


class Rec(dict):
    "dict literal used as a record: d['k'] and d.k"

    def __getattr__(self, k):
        try:
            return self[k]
        except KeyError:
            raise AttributeError(k)


class LSeq(list):
    "eager in-memory sequence with the LINQ operators"

    @classmethod
    def of(cls, s):
        if isinstance(s, LSeq):
            return s
        if isinstance(s, (list, ZSeq)) or inspect.isgenerator(s):
            return LSeq(list(s))
        raise TypeError("not a sequence: %r" % (s,))

    def Select(self, f):
        return LSeq([f(x) for x in self])

    def Where(self, filter):
        f = filter
        return LSeq([x for x in self if f(x)])

    def SelectMany(self, func):
        f = func
        return LSeq([y for x in self for y in LSeq.of(f(x))])

    def First(self):
        return self[0]

    def Count(self):
        return len(self)

    def Sum(self):
        return sum(self)

    def Max(self):
        return max(list(self) + [0])

    def Min(self):
        return min(list(self) + [0])

    def Aggregate(self, init, f):
        return functools.reduce(f, self, init)

    def MetaData(self, d):
        return self


class ZSeq:
    "lazy sequence: nothing is evaluated before it is demanded"

    def __init__(self, mk):
        self.mk = mk

    @classmethod
    def of(cls, s):
        if isinstance(s, ZSeq):
            return s
        if isinstance(s, list):
            return ZSeq(lambda: iter(s))
        if inspect.isgenerator(s):
            cache = list(s)
            return ZSeq(lambda: iter(cache))
        raise TypeError("not a sequence: %r" % (s,))

    def __iter__(self):
        return self.mk()

    def __len__(self):
        return sum(1 for _ in self)

    def __getitem__(self, k):
        for i, x in enumerate(self):
            if i == k:
                return x
        raise IndexError(k)

    def Select(self, f):
        return ZSeq(lambda: (f(x) for x in self))

    def Where(self, filter):
        f = filter
        return ZSeq(lambda: (x for x in self if f(x)))

    def SelectMany(self, func):
        f = func
        return ZSeq(lambda: (y for x in self for y in ZSeq.of(f(x))))

    def First(self):
        for x in self:
            return x
        raise IndexError("First of empty sequence")

    def Count(self):
        return len(self)

    def Sum(self):
        return sum(self)

    def Max(self):
        return max(list(self) + [0])

    def Min(self):
        return min(list(self) + [0])

    def Aggregate(self, init, f):
        return functools.reduce(f, self, init)

    def MetaData(self, d):
        return self


class PyStream:
    """in-memory stand-in for an ObjectStream: runs a fluent chain exactly as the user wrote it (real lambdas, source strings or
    ast.Lambda objects) on a sequence of model objects"""

    def __init__(self, seq, env):
        self.seq, self.env = seq, env

    def _fn(self, f):
        if callable(f):
            return f
        if isinstance(f, str):
            return eval(f.strip(), dict(self.env))
        if isinstance(f, ast.AST):
            return eval(compile(ast.fix_missing_locations(ast.Expression(copy.deepcopy(f))), "<lambda ast>", "eval"), dict(self.env))
        raise TypeError(f)

    def Select(self, f):
        return PyStream(self.seq.Select(self._fn(f)), self.env)

    def Where(self, filter):
        f = filter
        return PyStream(self.seq.Where(self._fn(f)), self.env)

    def SelectMany(self, func):
        f = func
        return PyStream(self.seq.SelectMany(self._fn(f)), self.env)

    def MetaData(self, d):
        return self

    def QMetaData(self, d):
        return self

    def _res(self, tag, *lits):
        return ("Result", tag, self.seq, tuple(repr(x) for x in lits))

    def AsAwkwardArray(self, columns=[]):
        return self._res("ResultAwkwardArray", [columns] if isinstance(columns, str) else columns)

    def AsPandasDF(self, columns=[]):
        return self._res("ResultPandasDF", [columns] if isinstance(columns, str) else columns)

    def AsROOTTTree(self, filename, treename, columns=[]):
        return self._res("ResultTTree", [columns] if isinstance(columns, str) else columns, treename, filename)

    def AsParquetFiles(self, filename, columns=[]):
        return self._res("ResultParquet", [columns] if isinstance(columns, str) else columns, filename)


def norm(v):
    "normal form for comparing results: sequences and positional records become tuples, records plain dicts"
    import dataclasses
    if isinstance(v, PyStream):
        return norm(v.seq)
    if dataclasses.is_dataclass(v) and not isinstance(v, type):
        return {f.name: norm(getattr(v, f.name)) for f in dataclasses.fields(v)}
    if isinstance(v, tuple) and hasattr(v, "_fields"):
        return {k: norm(x) for k, x in zip(v._fields, v)}
    if isinstance(v, (LSeq, ZSeq, list)) or inspect.isgenerator(v):
        return tuple(norm(x) for x in v)
    if isinstance(v, tuple):
        return tuple(norm(x) for x in v)
    if isinstance(v, dict):
        return {k: norm(x) for k, x in v.items()}
    if isinstance(v, bool):
        return int(v)
    return v


class _DictToRec(ast.NodeTransformer):
    "dict literals evaluate to records supporting d.k"

    def visit_Dict(self, node):
        self.generic_visit(node)
        return ast.Call(ast.Name("__Rec", ast.Load()), [node], [])


def run(tree, env):
    """evaluate a query AST with CPython.  -> ('ok', normalised value) | ('err', exception repr)"""
    t = _DictToRec().visit(copy.deepcopy(tree))
    for n in ast.walk(t):
        # a missing expression context is a well-formedness matter (C18), not a semantic one: read it as Load
        if isinstance(n, (ast.Name, ast.Attribute, ast.Subscript, ast.Tuple, ast.List, ast.Starred)) and not hasattr(n, "ctx"):
            n.ctx = ast.Load()
    try:
        code = compile(ast.fix_missing_locations(ast.Expression(t)), "<query>", "eval")
    except (SyntaxError, TypeError, ValueError) as e:
        return "err", "does not compile: %s: %s" % (type(e).__name__, e)
    env = dict(env)
    env["__Rec"] = Rec
    try:
        return "ok", norm(eval(code, env))
    except RecursionError:
        raise
    except Exception as e:  # noqa
        return "err", "%s: %s" % (type(e).__name__, e)
