"""Engine T: translation validation queries Q0/Q1/Q2 between an input AST P and the real transformer's output P'."""
import ast
import os
import subprocess
import tempfile
import time

import z3

from vlib.qsem import enc, world

OK, VIOLATION, INCONCLUSIVE, SKIP, HARNESS = "ok", "violation", "inconclusive", "skip", "harness_error"


class Stats:
    def __init__(self):
        self.programs = 0
        self.queries = {"Q0_sat": 0, "Q0_unsat": 0, "Q1_unsat": 0, "Q1_sat": 0, "Q2_unsat": 0, "Q2_sat": 0, "unknown": 0}
        self.solver_s = 0.0
        self.checks = 0
        self.q0_replayed = 0
        self.enc_in = 0
        self.enc_out = 0
        self.vacuous = 0
        self.eager_only = 0
        self.disagreements_checked = 0
        self.samples = []
        self.skip_reasons = {}
        self.cross = {}              # external solver -> {"agree": n, "unknown": n, "disagree": n}
        self.cross_disagreements = []

    def merge(self, o):
        for k, d in o.cross.items():
            t = self.cross.setdefault(k, {"agree": 0, "unknown": 0, "disagree": 0})
            for kk, vv in d.items():
                t[kk] += vv
        self.cross_disagreements += o.cross_disagreements
        self.programs += o.programs
        for k, v in o.queries.items():
            self.queries[k] += v
        self.solver_s += o.solver_s
        self.checks += o.checks
        self.q0_replayed += o.q0_replayed
        self.enc_in += o.enc_in
        self.enc_out += o.enc_out
        self.vacuous += o.vacuous
        self.eager_only += o.eager_only
        self.disagreements_checked += o.disagreements_checked
        for k, v in o.skip_reasons.items():
            self.skip_reasons[k] = self.skip_reasons.get(k, 0) + v
        if len(self.samples) < 12:
            self.samples += o.samples[: 12 - len(self.samples)]


# Every XEVERY-th query of a process is dumped as SMT-LIB2 and decided again by two other solvers (separate processes; ~1 s start-up each).
# A definite answer that differs from z3 5.1.0's is a harness error (exit 3), never a pass; errors / timeouts there count as "unknown".
XEVERY = int(os.environ.get("VERIF_XSOLVER_EVERY", "0") or 0)
XSOLVERS = [("z3-4.8.12", ["/usr/bin/z3", "-T:20"]), ("cvc5-1.0.3", ["cvc5", "--tlimit=20000"])]
_xcount = [0]


def _cross(s, r, st):
    with tempfile.NamedTemporaryFile("w", suffix=".smt2", delete=False) as f:
        f.write("(set-logic ALL)\n" + s.to_smt2())
        path = f.name
    try:
        for name, cmd in XSOLVERS:
            t = st.cross.setdefault(name, {"agree": 0, "unknown": 0, "disagree": 0})
            try:
                p = subprocess.run(cmd + [path], capture_output=True, text=True, timeout=40)
                out = p.stdout.strip().splitlines()
            except Exception:  # noqa
                out = []
            ans = out[0].strip() if out else ""
            if "(error" in "\n".join(out) or ans not in ("sat", "unsat"):
                t["unknown"] += 1
            elif ans == r:
                t["agree"] += 1
            else:
                t["disagree"] += 1
                st.cross_disagreements.append("%s answers %s where z3 5.1.0 answers %s: %s" % (name, ans, r, s.to_smt2()[:3000]))
    finally:
        os.unlink(path)


def _check(s, st):
    t = time.perf_counter()
    r = str(s.check())
    st.solver_s += time.perf_counter() - t
    st.checks += 1
    if XEVERY and r in ("sat", "unsat"):
        _xcount[0] += 1
        if _xcount[0] == 7 or _xcount[0] % XEVERY == 0:     # every process contributes at least one
            _cross(s, r, st)
    return r


def free_names(tree):
    "names that are free in the expression (Python scoping: lambda parameters and comprehension targets bind)"
    out = set()

    def walk(n, bound):
        if isinstance(n, ast.Lambda):
            a = n.args
            for d in list(a.defaults) + [d for d in a.kw_defaults if d is not None]:
                walk(d, bound)
            walk(n.body, bound | {x.arg for x in a.posonlyargs + a.args + a.kwonlyargs} | {x.arg for x in (a.vararg, a.kwarg) if x is not None})
            return
        if isinstance(n, (ast.ListComp, ast.GeneratorExp)):
            b = set(bound)
            for g in n.generators:
                walk(g.iter, frozenset(b))
                if isinstance(g.target, ast.Name):
                    b.add(g.target.id)
                for i in g.ifs:
                    walk(i, frozenset(b))
            walk(n.elt, frozenset(b))
            return
        if isinstance(n, ast.Name):
            if n.id not in bound:
                out.add(n.id)
            return
        for c in ast.iter_child_nodes(n):
            walk(c, bound)
    walk(tree, frozenset())
    return out


def replay_pair(cx, model, P, P2, extra_env=None, lazy=False):
    w = world.World(cx, model, lazy=lazy)
    env = w.env(extra_env(w) if extra_env else None)
    return world.run(P, env), world.run(P2, env)


def describe_model(cx, model):
    try:
        return str(model)[:1500].replace("\n", " ")
    except Exception:  # noqa
        return "<model>"


def tv_pair(P, P2, N=2, sigs=None, rtypes=None, env_builder=None, extra_env=None, stats=None, timeout_ms=30000, check_q0=True):
    """Decide Q0/Q1/Q2 for input AST P and output AST P2.

    env_builder(cx) -> dict of additional encoder bindings (besides 'ds'); extra_env(world) -> the same names for CPython replay.
    Returns (status, detail dict)."""
    st = stats if stats is not None else Stats()
    st.programs += 1
    cx = enc.Ctx(N=N, sigs=sigs, rtypes=rtypes)
    env = {"ds": enc.dataset(cx)}
    if env_builder:
        env.update(env_builder(cx))
    try:
        vo, eo = enc.encode(cx, P, env)
    except enc.EncodingError as e:
        st.enc_in += 1
        k = str(e).split(":")[0][:60]
        st.skip_reasons[k] = st.skip_reasons.get(k, 0) + 1
        return SKIP, {"why": "input not encodable: %s" % e}
    side_in = list(cx.side)
    out_err = None
    try:
        vn, en = enc.encode(cx, P2, env)
    except enc.EncodingError as e:
        out_err = str(e)
        vn, en = None, None
    s = z3.Solver()
    s.set("timeout", timeout_ms)
    okP = z3.Not(z3.Or(eo)) if eo else z3.BoolVal(True)

    # ---- Q0: P can run without error; its model validates the encoder against CPython on this very program
    s.push()
    s.add(side_in if out_err else cx.side)
    s.add(cx.distinctness())
    s.add(okP)
    r0 = _check(s, st)
    m0 = s.model() if r0 == "sat" else None
    s.pop()
    if r0 == "unknown":
        st.queries["unknown"] += 1
        return INCONCLUSIVE, {"why": "Q0 unknown"}
    if r0 == "unsat":
        st.queries["Q0_unsat"] += 1
        st.vacuous += 1
        return SKIP, {"why": "input evaluates with an error on every dataset (vacuous)"}
    st.queries["Q0_sat"] += 1
    if check_q0:
        w = world.World(cx, m0)
        got = world.run(P, w.env(extra_env(w) if extra_env else None))
        try:
            want = world.norm(w.py(vo))
        except enc.EncodingError as e:
            return HARNESS, {"why": "cannot concretise the encoded value: %s" % e}
        st.q0_replayed += 1
        if got[0] != "ok" or got[1] != want:
            return HARNESS, {"why": "encoder disagrees with CPython on the input program", "cpython": repr(got)[:400], "encoded": repr(want)[:400], "model": describe_model(cx, m0)}
    if out_err is not None:
        # the output is not even encodable (ill-typed / unsupported): decide by concrete differential runs on the Q0 witness
        st.enc_out += 1
        models = [m0]
        # witnesses with non-empty collections exercise more of the output
        for extra in ([ln >= 1 for ln in cx.lens], [ln == cx.N for ln in cx.lens[:1]]):
            s.push()
            s.add(side_in)
            s.add(cx.distinctness())
            s.add(okP)
            s.add(extra)
            if _check(s, st) == "sat":
                models.append(s.model())
            s.pop()
        for mm in reversed(models):
            a, b = replay_pair(cx, mm, P, P2, extra_env)
            st.disagreements_checked += 1
            if a[0] == "ok" and a != b:
                return VIOLATION, {"kind": "output not encodable (%s) and differs concretely" % out_err, "input_result": repr(a)[:300], "output_result": repr(b)[:300], "model": describe_model(cx, mm)}
        return INCONCLUSIVE, {"why": "output not encodable: %s" % out_err}
    okN = z3.Not(z3.Or(en)) if en else z3.BoolVal(True)
    base = list(cx.side) + cx.distinctness()

    # ---- Q1: same value on every dataset
    try:
        neq = z3.Not(enc.eq(vo, vn))
    except enc.EncodingError as e:
        return INCONCLUSIVE, {"why": "results not comparable: %s" % e}
    s.push()
    s.add(base)
    s.add(okP, okN, neq)
    r1 = _check(s, st)
    m1 = s.model() if r1 == "sat" else None
    s.pop()
    if r1 == "unknown":
        st.queries["unknown"] += 1
        return INCONCLUSIVE, {"why": "Q1 unknown"}
    if r1 == "sat":
        st.queries["Q1_sat"] += 1
        a, b = replay_pair(cx, m1, P, P2, extra_env)
        st.disagreements_checked += 1
        if a[0] == "ok" and a != b:
            return VIOLATION, {"kind": "different result", "input_result": repr(a)[:300], "output_result": repr(b)[:300], "model": describe_model(cx, m1)}
        return HARNESS, {"why": "Q1 counterexample does not reproduce under CPython", "input_result": repr(a)[:300], "output_result": repr(b)[:300], "model": describe_model(cx, m1)}
    st.queries["Q1_unsat"] += 1

    # ---- Q2: no error introduced
    if en:
        s.push()
        s.add(base)
        s.add(okP, z3.Or(en))
        r2 = _check(s, st)
        m2 = s.model() if r2 == "sat" else None
        s.pop()
        if r2 == "unknown":
            st.queries["unknown"] += 1
            return INCONCLUSIVE, {"why": "Q2 unknown"}
        if r2 == "sat":
            st.queries["Q2_sat"] += 1
            a, b = replay_pair(cx, m2, P, P2, extra_env)
            st.disagreements_checked += 1
            if a[0] == "ok" and b[0] == "err":
                la, lb = replay_pair(cx, m2, P, P2, extra_env, lazy=True)
                if la[0] == "ok" and lb[0] == "err":
                    return VIOLATION, {"kind": "error introduced", "input_result": repr(a)[:300], "output_result": repr(b)[:300], "model": describe_model(cx, m2)}
                st.eager_only += 1
                return OK, {"note": "error only under eager evaluation"}
            return HARNESS, {"why": "Q2 counterexample does not reproduce under CPython", "input_result": repr(a)[:300], "output_result": repr(b)[:300], "model": describe_model(cx, m2)}
        st.queries["Q2_unsat"] += 1
    else:
        st.queries["Q2_unsat"] += 1
    return OK, {}
