"""Idempotent construction of the overlay virtualenv /verif/.venv over /venv.

/venv holds the repository's own environment (func_adl is installed there in editable
mode, i.e. it is imported from /repo's current working tree).  The overlay adds
crosshair-tool and z3-solver from the offline wheelhouse and nothing else.
Only the standard library is used here (runs under /venv/bin/python).
"""
import fcntl
import os
import subprocess
import sys

ROOT = os.path.dirname(os.path.dirname(os.path.abspath(__file__)))
VENV = os.path.join(ROOT, ".venv")
WHEELS = "/opt/veriftools/wheels"
BASE_SP = "/venv/lib/python3.12/site-packages"


def ok() -> bool:
    py = os.path.join(VENV, "bin", "python")
    if not os.path.exists(py):
        return False
    r = subprocess.run(
        [py, "-c", "import crosshair, z3, func_adl, make_it_sync"],
        stdout=subprocess.DEVNULL,
        stderr=subprocess.DEVNULL,
    )
    return r.returncode == 0


def build(quiet: bool) -> int:
    lock = open(os.path.join(ROOT, ".env.lock"), "w")
    fcntl.flock(lock, fcntl.LOCK_EX)
    try:
        if ok():
            return 0
        out = subprocess.DEVNULL if quiet else None
        subprocess.check_call(["/venv/bin/python", "-m", "venv", "--clear", VENV], stdout=out)
        sp = os.path.join(VENV, "lib", "python3.12", "site-packages")
        with open(os.path.join(sp, "_verif_overlay.pth"), "w") as f:
            f.write("import site; site.addsitedir(%r)\n" % BASE_SP)
        env = dict(os.environ, PIP_NO_INDEX="1", PIP_DISABLE_PIP_VERSION_CHECK="1")
        subprocess.check_call(
            [os.path.join(VENV, "bin", "pip"), "install", "-q", "--no-index", "--find-links", WHEELS,
             "crosshair-tool", "z3-solver"],
            stdout=out, env=env,
        )
        return 0 if ok() else 3
    finally:
        fcntl.flock(lock, fcntl.LOCK_UN)


if __name__ == "__main__":
    sys.exit(build("--quiet" in sys.argv))
