"""./vf check <ID> [--tier quick|thorough]   |   ./vf replay <file>"""
import argparse
import importlib
import json
import os
import sys

from vlib import report


def main():
    ap = argparse.ArgumentParser()
    sub = ap.add_subparsers(dest="cmd", required=True)
    c = sub.add_parser("check")
    c.add_argument("prop")
    c.add_argument("--tier", default=os.environ.get("VERIF_TIER", "quick"), choices=["quick", "thorough"])
    r = sub.add_parser("replay")
    r.add_argument("file")
    a = ap.parse_args()
    if a.cmd == "check":
        # engine T: every k-th solver query of each worker process is decided again by /usr/bin/z3 4.8.12 and cvc5 1.0.3 (vlib/qsem/tv.py)
        os.environ["VERIF_TIER_NOW"] = a.tier      # harness modules that shrink a dimension in the quick tier read it (stated in their evidence)
        os.environ.setdefault("VERIF_XSOLVER_EVERY", "1000" if a.tier == "quick" else "250")
        mod = importlib.import_module("vlib.harness.%s" % a.prop.lower())
        sys.exit(mod.run(a.tier))
    else:
        payload = json.load(open(a.file))
        mod = importlib.import_module("vlib.harness.%s" % payload["property"].lower())
        sys.exit(mod.replay(payload))


if __name__ == "__main__":
    main()
