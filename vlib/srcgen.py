"""Generated Python source modules (real lambdas, helpers, captured values) for the pipeline properties C01 / C03 / C05.
Modules are written to a temporary directory outside /repo and /verif, imported under a unique name and removed afterwards."""
import importlib.util
import itertools
import linecache
import os
import shutil
import sys
import tempfile

_counter = itertools.count()


class Scratch:
    def __init__(self):
        self.dir = tempfile.mkdtemp(prefix="verif_gen_")

    def load(self, text, stem="gen"):
        name = "%s_%d_%d" % (stem, os.getpid(), next(_counter))
        path = os.path.join(self.dir, name + ".py")
        with open(path, "w") as f:
            f.write(text)
        linecache.checkcache(path)
        spec = importlib.util.spec_from_file_location(name, path)
        mod = importlib.util.module_from_spec(spec)
        sys.modules[name] = mod
        spec.loader.exec_module(mod)
        return mod

    def close(self):
        shutil.rmtree(self.dir, ignore_errors=True)

    def __enter__(self):
        return self

    def __exit__(self, *a):
        self.close()
        return False
