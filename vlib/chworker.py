"""Engine S worker: one CrossHair analysis of one harness function on one partition.

usage:  python -m vlib.chworker run <module> <fn> <lo> <hi> <cond_timeout> <path_timeout> <mode>
        python -m vlib.chworker replay <module> <fn> <json-kwargs-file>
mode = main | twin.  Every harness has the postcondition `(_ == '') != TWIN`; with VERIF_TWIN=1 it
is the reachability twin, same body and preconditions, postcondition `_ != ''`: a counterexample to it is an input on which the harness ran to its normal end,
i.e. a reachability witness; a "confirmed" or "unable to meet precondition" twin means the
main verdict would be vacuous.
Prints exactly one line starting with `RESULT ` followed by JSON.
"""
import collections
import importlib
import json
import os
import re
import sys
import time


def stub_number_formatting():
    """Environment stub (part of every engine-S claim): an f-string / format() of a *symbolic number* with an empty
    format spec yields the placeholder text '<n>' instead of realising the number digit by digit (CrossHair would
    otherwise enumerate concrete values for every log/error message func_adl formats).  Only message texts are
    affected; str()/repr() are untouched.  Likewise an ast node formatted with an empty spec yields '<ast node>'."""
    import logging

    # logging is environment: CrossHair makes the clock symbolic, so building a LogRecord (timestamps) forks without end;
    # func_adl's log calls never influence its results.
    logging.disable(logging.CRITICAL)

    from crosshair.libimpl import builtinslib
    from crosshair.core import realize

    def _fmt(self, fmt):
        if isinstance(fmt, str) and fmt == "":
            return "<n>"
        return realize(self).__format__(realize(fmt))

    builtinslib.SymbolicNumberAble.__format__ = _fmt
    import ast as _ast
    from crosshair import opcode_intercept
    from crosshair.tracers import NoTracing

    orig = opcode_intercept.FormatStashingValue.__format__

    def _stash_format(self, fmt):
        with NoTracing():
            stub = type(fmt) is str and fmt == "" and isinstance(self.value, builtinslib.SymbolicNumberAble)
            # an ast node formatted into a message: CrossHair would deep-realise every symbolic leaf below it
            stub_ast = type(fmt) is str and fmt == "" and isinstance(self.value, _ast.AST)
        if stub:
            self.formatted = "<n>"
            return ""
        if stub_ast:
            self.formatted = "<ast node>"
            return ""
        return orig(self, fmt)

    opcode_intercept.FormatStashingValue.__format__ = _stash_format

    # ast.unparse / ast.dump of a tree that holds symbolic leaves (func_adl renders sub-trees into its error messages): the
    # text would realise every leaf, so CrossHair would enumerate values; such a rendering yields a placeholder text instead.
    # Trees without symbolic leaves are rendered normally.
    from crosshair.util import CrossHairValue as _CHV

    def _has_symbolic(n):
        if isinstance(n, _ast.AST):
            for f in n._fields:
                if _has_symbolic(getattr(n, f, None)):
                    return True
            return False
        if isinstance(n, list):
            return any(_has_symbolic(x) for x in n)
        return isinstance(n, _CHV)

    _orig_unparse, _orig_dump = _ast.unparse, _ast.dump

    def _unparse(node):
        with NoTracing():
            sym = _has_symbolic(node)
        return "<text of a tree with symbolic leaves>" if sym else _orig_unparse(node)

    def _dump(node, *a, **kw):
        with NoTracing():
            sym = _has_symbolic(node)
        return "<dump of a tree with symbolic leaves>" if sym else _orig_dump(node, *a, **kw)

    _ast.unparse, _ast.dump = _unparse, _dump

    # no short-circuiting: CrossHair may replace a call of any function that carries a contract (e.g. its own patched repr(), whose
    # docstring has `post[]: True`) by an arbitrary symbolic return value; every call must run its real body here.
    _core0 = __import__("crosshair.core", fromlist=["x"])
    _core0.consider_shortcircuit = lambda *a, **kw: None

    # CrossHair 0.0.110 bug: its dict model defines `__ror__ = __or__`, so `plain_dict | crosshair_dict` lets the LEFT operand win
    # (dict union is not commutative).  func_adl relies on `{var: type} | known_types`; without this repair engine S would execute a
    # different program than CPython does there (it did: a nested lambda re-using its parent's parameter name looked correct under
    # tracing and wrong natively).
    from collections.abc import Mapping as _Mapping
    from crosshair import simplestructs as _ss

    def _map_ror(self, other):
        if not isinstance(other, _Mapping):
            return NotImplemented
        union_map = _ss.ShellMutableMap(_ss.SimpleDict(list(other.items())))
        union_map.update(self)
        return union_map

    _ss.MapBase.__ror__ = _map_ror

    # builtin callable(): CrossHair realises a symbolic argument handed to an unmodelled C builtin; symbolic
    # int/bool/float/str/bytes/containers are never callable, so answer without realising.
    import crosshair.core_and_libs  # noqa: F401  (registers the stock patches we override below)
    from crosshair import core as _core
    from crosshair.core import python_type
    from crosshair.util import CrossHairValue

    orig_callable = callable

    def _callable(x):
        with NoTracing():
            if isinstance(x, CrossHairValue):
                t = python_type(x)
                if isinstance(t, type) and issubclass(t, (int, float, str, bytes, bytearray, list, tuple, dict, set, frozenset, type(None))):
                    return False
            return orig_callable(x)

    _core._PATCH_REGISTRATIONS[callable] = _callable


def run(module, fn_name, lo, hi, cond_timeout, path_timeout, mode):
    os.environ["VERIF_LO"] = str(lo)
    os.environ["VERIF_HI"] = str(hi)
    os.environ["VERIF_TWIN"] = "1" if mode == "twin" else "0"
    import z3

    stats = {"checks": 0, "solver_s": 0.0}
    orig_check = z3.Solver.check

    def counting_check(self, *a):
        t = time.perf_counter()
        try:
            return orig_check(self, *a)
        finally:
            stats["checks"] += 1
            stats["solver_s"] += time.perf_counter() - t

    z3.Solver.check = counting_check
    stub_number_formatting()
    from crosshair.core_and_libs import analyze_function, run_checkables
    from crosshair.options import AnalysisOptionSet

    m = importlib.import_module(module)
    fn = getattr(m, fn_name)
    ctr = collections.Counter()
    opts = AnalysisOptionSet(
        per_condition_timeout=float(cond_timeout),
        per_path_timeout=float(path_timeout),
        report_all=True,
        max_uninteresting_iterations=sys.maxsize,
        stats=ctr,
    )
    t0 = time.time()
    msgs = []
    try:
        checkables = analyze_function(fn, opts)
        for msg in run_checkables(checkables):
            msgs.append({"state": msg.state.name, "message": msg.message, "line": msg.line, "traceback": (msg.traceback or "")[-1500:]})
    except Exception as e:  # noqa
        msgs.append({"state": "DRIVER_ERR", "message": repr(e)})
    out = {
        "module": module, "fn": fn_name, "lo": lo, "hi": hi, "mode": mode,
        "messages": msgs, "paths": ctr.get("num_paths", 0), "checks": stats["checks"],
        "solver_s": round(stats["solver_s"], 3), "reached": _reached(), "wall_s": round(time.time() - t0, 2),
    }
    print("RESULT " + json.dumps(out))


def sample(module, fn_name, lo, hi, n, seed):
    """Native cross-check of the symbolic engine: the harness function is run on the plain interpreter (no CrossHair) on n pseudo-random
    inputs of partition [lo, hi) built from its signature.  A model error of the symbolic executor (one was found: dict `|`) shows up
    as an input that fails natively although the partition was 'confirmed'."""
    import inspect
    import random
    import typing
    os.environ["VERIF_LO"] = str(lo)
    os.environ["VERIF_HI"] = str(hi)
    os.environ["VERIF_TWIN"] = "0"
    import logging
    logging.disable(logging.CRITICAL)
    m = importlib.import_module(module)
    fn = getattr(m, fn_name)
    rnd = random.Random(seed)
    sig = inspect.signature(fn)
    hints = typing.get_type_hints(fn)
    names = list(sig.parameters)
    STRS = ["", "a", "b", "k", "ab", "a b", "class", "x'", "\\", "\n", "Select", "Count", "len", "Sum", "\u03bb"]
    # simple bounds from the contract's `pre:` lines:  a <= x <= b,  a <= x < b,  len(s) <= n
    doc = fn.__doc__ or ""
    rng, maxlen = {}, {}
    for a, nm, strict, b in re.findall(r"(-?\d+) <= (\w+) <(=?) (-?\d+)", doc):
        rng[nm] = (int(a), int(b) if strict == "=" else int(b) - 1)
    for nm, b in re.findall(r"len\((\w+)\) <= (\d+)", doc):
        maxlen[nm] = int(b)

    def value(t, first, nm=None):
        if first:
            return rnd.randrange(lo, hi)
        if t is bool:
            return rnd.random() < 0.5
        if t is int:
            if nm in rng:
                return rnd.randint(*rng[nm])
            return rnd.choice([0, 1, 2, 3, 4, 5, 6, 7, -1, -2, -3, 10 ** 12]) if rnd.random() < 0.9 else rnd.randrange(-50, 50)
        if t is str:
            ok = [x for x in STRS if len(x) <= maxlen.get(nm, 99)]
            return rnd.choice(ok)
        if t is float:
            return rnd.choice([0.0, 1.5, -2.25, 1e22])
        if t is bytes:
            return rnd.choice([b"", b"a", b"\x00\xff"])
        args = typing.get_args(t)
        if args:
            return value(rnd.choice(args), False)
        return None

    pres = [ln.split("pre:", 1)[1].strip() for ln in doc.splitlines() if ln.strip().startswith("pre:")]
    fails, ran = [], 0
    for i in range(int(n)):
        args = [value(hints.get(nm, int), k == 0, nm) for k, nm in enumerate(names)]
        try:
            ok = all(eval(pre, dict(vars(m)), dict(zip(names, args))) for pre in pres)
        except Exception:  # noqa
            ok = False
        if not ok:
            continue        # the contract's precondition excludes this input
        try:
            r = fn(*args)
        except AssertionError as e:
            if "pick:" in str(e):
                continue
            r = "native raised %r" % (e,)
        except Exception as e:  # noqa
            r = "native raised %r" % (e,)
        ran += 1
        if r != "":
            fails.append({"argstr": ", ".join(repr(a) for a in args), "returned": str(r)[:600]})
            if len(fails) >= 5:
                break
    print("RESULT " + json.dumps({"ran": ran, "fails": fails}))


def _reached():
    try:
        from vlib.sh import common
        return common.REACHED[0]
    except Exception:  # noqa
        return 0


def replay(module, fn_name, kwfile):
    os.environ["VERIF_LO"] = "-1000000000"
    os.environ["VERIF_HI"] = "1000000000"
    m = importlib.import_module(module)
    fn = getattr(m, fn_name)
    from vlib.chrun import decode_args

    a, kw = decode_args(json.load(open(kwfile)))
    try:
        r = fn(*a, **kw)
        out = {"returned": r}
    except Exception as e:  # noqa
        out = {"raised": repr(e)}
    print("RESULT " + json.dumps(out))


if __name__ == "__main__":
    if sys.argv[1] == "sample":
        sample(sys.argv[2], sys.argv[3], int(sys.argv[4]), int(sys.argv[5]), sys.argv[6], int(sys.argv[7]))
    elif sys.argv[1] == "run":
        run(sys.argv[2], sys.argv[3], int(sys.argv[4]), int(sys.argv[5]), sys.argv[6], sys.argv[7], sys.argv[8])
    else:
        replay(sys.argv[2], sys.argv[3], sys.argv[4])
