"""Engine T runner: distributes work units over processes; each unit generates programs, runs the real transformer and
decides Q0/Q1/Q2 with z3."""
import ast
import copy
import multiprocessing as mp
import os
import random
import time
import traceback

from vlib.qsem import tv
from vlib.skel import gen

NPROC = int(os.environ.get("VERIF_WORKERS", "16"))


# ------------------------------------------------------------------ transformers (the real code under test)
def t_simplify(tree):
    from func_adl.ast.function_simplifier import simplify_chained_calls
    return simplify_chained_calls().visit(tree)


def t_simplify_fresh(tree):
    "as a fresh process would: the simplifier's counter for made-up names starts at 0 (user names of the form arg_<n> can then meet generated ones)"
    import func_adl.ast.function_simplifier as fs
    fs.argument_var_counter = 0
    return fs.simplify_chained_calls().visit(tree)


def t_fnform(tree):
    from func_adl.ast.func_adl_ast_utils import change_extension_functions_to_calls
    return change_extension_functions_to_calls(tree)


def t_fnform_simplify(tree):
    return t_simplify(t_fnform(tree))


def t_aggregate(tree):
    from func_adl.ast.aggregate_shortcuts import aggregate_node_transformer
    return aggregate_node_transformer().visit(tree)


def t_sugar(tree):
    from func_adl.ast.syntatic_sugar import resolve_syntatic_sugar
    return resolve_syntatic_sugar(tree)


def t_backend_pipeline(tree):
    "the three backend-side passes in the order a backend applies them"
    return t_simplify(t_aggregate(t_fnform(tree)))


TRANSFORMERS = {"simplify": t_simplify, "simplify_fresh": t_simplify_fresh, "fnform": t_fnform, "fnform_simplify": t_fnform_simplify, "aggregate": t_aggregate,
                "sugar": t_sugar, "backend": t_backend_pipeline}

BUILTIN_FREE = {"ds", "Select", "Where", "SelectMany", "First", "Count", "len", "Sum", "Max", "Min", "Aggregate", "MetaData", "abs", "fn_i_calib"}


class UnitResult:
    def __init__(self):
        self.stats = tv.Stats()
        self.violations = []      # payload dicts
        self.inconclusive = []
        self.harness = []
        self.by_production = {}
        self.raised_allowed = 0


def compiles(tree):
    try:
        compile(ast.fix_missing_locations(ast.Expression(copy.deepcopy(tree))), "<output>", "eval")
        compile(ast.unparse(tree), "<unparsed output>", "eval")
        return None
    except Exception as e:  # noqa
        return "%s: %s" % (type(e).__name__, e)


def decide(src_or_tree, transformer, N, res, label, rtypes=None, sigs=None, allowed_exc=(), free_check=True, payload_extra=None, compile_check=False):
    """run the real transformer on a copy of the program and decide the TV queries; records into res"""
    P = ast.parse(src_or_tree, mode="eval").body if isinstance(src_or_tree, str) else src_or_tree
    src = ast.unparse(P)
    try:
        P2 = TRANSFORMERS[transformer](copy.deepcopy(P))
    except allowed_exc:
        res.raised_allowed += 1
        return "raised_allowed"
    except RecursionError:
        res.violations.append(dict(engine="T", transformer=transformer, program=src, N=N, kind="transformer did not terminate (RecursionError)", label=label))
        return "violation"
    except Exception as e:  # noqa
        res.violations.append(dict(engine="T", transformer=transformer, program=src, N=N, kind="transformer raised %s: %s" % (type(e).__name__, e), label=label))
        return "violation"
    if compile_check:
        why = compiles(P2)
        if why:
            res.violations.append(dict(engine="T", transformer=transformer, program=src, N=N, kind="output cannot be unparsed and compiled (%s)" % why, label=label,
                                       output_dump=ast.dump(P2)[:600], compile_check=True))
            return "violation"
    if transformer == "aggregate":
        # structural half of the claim: every shortcut call (one positional argument, no keyword) is lowered, at any depth
        left = [n.func.id for n in ast.walk(P2) if isinstance(n, ast.Call) and isinstance(n.func, ast.Name) and n.func.id in ("len", "Count", "Sum", "Max", "Min")
                and len(n.args) == 1 and not n.keywords and not isinstance(n.args[0], ast.Starred)]
        if left:
            res.violations.append(dict(engine="T", transformer=transformer, program=src, N=N, kind="shortcut calls left in the lowered query: %s" % sorted(set(left)), label=label,
                                       output=ast.unparse(P2)[:600]))
            return "violation"
    rt = dict(gen.RTYPES)
    rt.update(rtypes or {})
    status, d = tv.tv_pair(P, P2, N=N, rtypes=rt, sigs=sigs, stats=res.stats)
    if status in (tv.OK, tv.SKIP, tv.INCONCLUSIVE) and free_check:
        # syntactic side check, independent of the semantic verdict (also for inputs that always raise): no new unbound name
        extra = tv.free_names(P2) - tv.free_names(P) - BUILTIN_FREE
        if extra:
            status, d = tv.VIOLATION, {"kind": "output has new free names %s" % sorted(extra)}
    if len(res.stats.samples) < 6 and status == tv.OK:
        res.stats.samples.append({"program": src[:300], "output": ast.unparse(P2)[:300], "label": label})
    if status == tv.VIOLATION:
        p = dict(engine="T", transformer=transformer, program=src, N=N, label=label, output=ast.unparse(P2)[:600])
        p.update({k: str(v)[:800] for k, v in d.items()})
        if payload_extra:
            p.update(payload_extra)
        res.violations.append(p)
    elif status == tv.INCONCLUSIVE:
        res.inconclusive.append({"program": src[:300], "why": d.get("why"), "label": label})
    elif status == tv.HARNESS:
        res.harness.append("%s: %s | %s" % (label, d.get("why"), src[:300]) + " " + str({k: v for k, v in d.items() if k != "why"})[:600])
    return status


# ------------------------------------------------------------------ unit kinds
def unit_grammar(u):
    """exhaustive enumeration of the generic grammar under a fixed decision prefix"""
    res = UnitResult()
    feats = u.get("feats")
    for q, code in gen.enumerate_all(lambda ch: gen.G(ch, u["form"], feats).chain(u["stages"], u["depth"]), u["maxpicks"], fixed=tuple(u["fixed"])):
        for scheme in u["schemes"]:
            P = gen.rename_binders(q, scheme)
            decide(P, u["transformer"], u["N"], res, "grammar/%s/%s" % (u["form"], scheme), compile_check=u.get("compile_check", False))
    return res


def unit_random(u):
    res = UnitResult()
    rnd = random.Random(u["seed"])
    seen = set()
    n = 0
    tries = 0
    while n < u["count"] and tries < u["count"] * 20:
        tries += 1
        ch = gen.Chooser((), rnd=rnd, maxpicks=u["maxpicks"])
        try:
            q = gen.G(ch, u["form"], u.get("feats")).chain(u["stages"], u["depth"])
        except gen.Truncated:
            continue
        P = gen.rename_binders(q, u["scheme"])
        s = ast.unparse(P)
        if s in seen:
            continue
        seen.add(s)
        n += 1
        decide(P, u["transformer"], u["N"], res, "random/%s/%s" % (u["form"], u["scheme"]), compile_check=u.get("compile_check", False))
    return res


def unit_sources(u):
    "explicit program sources (mechanism families, regression programs)"
    res = UnitResult()
    for src in u["sources"]:
        decide(src, u["transformer"], u["N"], res, u.get("label", "family"), allowed_exc=tuple(u.get("allowed_exc", ())), rtypes=u.get("rtypes"),
               compile_check=u.get("compile_check", False))
    return res


UNITS = {"grammar": unit_grammar, "random": unit_random, "sources": unit_sources}


def _run_unit(u):
    import logging
    logging.disable(logging.CRITICAL)    # func_adl's warnings about unknown names are not part of any verdict
    t0 = time.time()
    try:
        r = UNITS[u["kind"]](u)
    except Exception as e:  # noqa
        r = UnitResult()
        r.harness.append("unit %s crashed: %s" % (u.get("kind"), traceback.format_exc()[-1500:]))
    r.wall = time.time() - t0
    return r


def run_units(units):
    "-> merged UnitResult"
    total = UnitResult()
    if not units:
        return total
    ctx = mp.get_context("fork")
    with ctx.Pool(min(NPROC, len(units))) as pool:
        for r in pool.imap_unordered(_run_unit, units, chunksize=1):
            total.stats.merge(r.stats)
            total.violations += r.violations
            total.inconclusive += r.inconclusive
            total.harness += r.harness
            total.raised_allowed += r.raised_allowed
            for k in ("refused", "py_chain_runs", "cases"):
                setattr(total, k, getattr(total, k, 0) + getattr(r, k, 0))
    return total


def fold_into(run, res, what):
    "put a merged UnitResult into a report.Run"
    c = run.coverage
    st = res.stats
    c["programs"] = c.get("programs", 0) + st.programs
    c["disagreements_checked"] = c.get("disagreements_checked", 0) + st.disagreements_checked
    q = c.setdefault("t_queries", {})
    for k, v in st.queries.items():
        q[k] = q.get(k, 0) + v
    c["t_z3_check_calls"] = c.get("t_z3_check_calls", 0) + st.checks
    c["t_solver_seconds"] = round(c.get("t_solver_seconds", 0) + st.solver_s, 2)
    c["t_q0_models_replayed_through_cpython"] = c.get("t_q0_models_replayed_through_cpython", 0) + st.q0_replayed
    c["t_input_not_encodable"] = c.get("t_input_not_encodable", 0) + st.enc_in
    c["t_output_not_encodable"] = c.get("t_output_not_encodable", 0) + st.enc_out
    c["t_vacuous_inputs"] = c.get("t_vacuous_inputs", 0) + st.vacuous
    c["t_errors_only_under_eager_evaluation"] = c.get("t_errors_only_under_eager_evaluation", 0) + st.eager_only
    c["t_transformer_raised_allowed_exception"] = c.get("t_transformer_raised_allowed_exception", 0) + res.raised_allowed
    if st.cross:
        x = c.setdefault("t_queries_redecided_by_other_solvers", {})
        for k, d in st.cross.items():
            t = x.setdefault(k, {"agree": 0, "unknown": 0, "disagree": 0})
            for kk, vv in d.items():
                t[kk] += vv
    for d in st.cross_disagreements[:5]:
        run.harness_error("solver disagreement: " + d)
    c.setdefault("t_skip_reasons", {}).update(st.skip_reasons)
    c.setdefault("t_units", []).append(what)
    c.setdefault("samples", [])
    c["samples"] = (c["samples"] + st.samples)[:16]
    for i in res.inconclusive:
        run.inconclusive.append(i)
    for h in res.harness[:30]:
        run.harness_error(h)
    from vlib import report as _report
    known = {k["id"]: k for k in _report.known_for(run.prop)}
    seen = set()
    for v in res.violations:
        key = (v.get("program"), v.get("kind"))
        if key in seen:
            continue
        seen.add(key)
        kid = v.get("known_id")
        if kid and kid in known:
            msg = "%s: %s" % (kid, known[kid]["what"])
            if msg not in run.known_hit:
                run.known_hit.append(msg)
            continue
        run.violation("%s: %s  [%s]" % (v.get("kind"), v.get("program", "")[:300], v.get("label")), v)


def replay_payload(payload):
    "re-decide one recorded program (./vf replay)"
    res = UnitResult()
    status = decide(payload["program"], payload["transformer"], payload.get("N", 2), res, "replay", compile_check=payload.get("compile_check", False))
    print(status, res.violations[:1] or res.harness[:1] or res.inconclusive[:1])
    return 1 if res.violations else (3 if res.harness else 0)


# ------------------------------------------------------------------ pipeline units: generated source modules through the real fluent API
MODULE_HEAD = '''from func_adl import EventDataset


class DS(EventDataset):
    async def execute_result_async(self, a, title=None):
        return a


'''


def helper_funs(module_ast, names):
    """enc.Fun closures for the single-return helpers of a generated module, read from CPython's parse of the generated text"""
    from vlib.qsem import enc
    henv = {}
    for node in module_ast.body:
        if isinstance(node, ast.FunctionDef) and node.name in names:
            rets = [b for b in node.body if isinstance(b, ast.Return)]
            body = [b for b in node.body if not (isinstance(b, ast.Expr) and isinstance(b.value, ast.Constant))]
            if len(body) == 1 and rets:
                a = node.args
                pos = [x.arg for x in a.posonlyargs + a.args]
                params = pos + [x.arg for x in a.kwonlyargs]
                dfl = {}
                for pn, d in zip(pos[len(pos) - len(a.defaults):], a.defaults):
                    dfl[pn] = ("expr", d)
                for x, d in zip(a.kwonlyargs, a.kw_defaults):
                    if d is not None:
                        dfl[x.arg] = ("expr", d)
                henv[node.name] = enc.Fun(params, rets[0].value, henv, {k: enc.const_value(None, v[1].value) if isinstance(v[1], ast.Constant) and isinstance(v[1].value, (int, bool)) else None
                                                                          for k, v in dfl.items()},
                                          npos=len(pos), nposonly=len(a.posonlyargs), vararg=a.vararg.arg if a.vararg else None, kwarg=a.kwarg.arg if a.kwarg else None)
        if isinstance(node, ast.Assign) and isinstance(node.value, ast.Constant) and type(node.value.value) is int and isinstance(node.targets[0], ast.Name) and node.targets[0].id in names:
            henv[node.targets[0].id] = enc.const_value(None, node.value.value)   # a module constant a helper refers to
        if isinstance(node, ast.Assign) and isinstance(node.value, ast.Lambda) and isinstance(node.targets[0], ast.Name) and node.targets[0].id in names:
            henv[node.targets[0].id] = enc.Fun([a.arg for a in node.value.args.args], node.value.body, henv)
    return henv


def decide_pair(P, P2, N, res, label, env_builder=None, extra_env=None, rtypes=None, sigs=None, payload_extra=None):
    rt = dict(gen.RTYPES)
    rt.update(rtypes or {})
    status, d = tv.tv_pair(P, P2, N=N, rtypes=rt, sigs=sigs, stats=res.stats, env_builder=env_builder, extra_env=extra_env)
    src = ast.unparse(P)
    if len(res.stats.samples) < 6 and status == tv.OK:
        res.stats.samples.append({"truth": src[:300], "emitted": ast.unparse(P2)[:300], "label": label})
    if status == tv.VIOLATION:
        p = dict(engine="T", program=src, N=N, label=label, output=ast.unparse(P2)[:800])
        p.update({k: str(v)[:800] for k, v in d.items()})
        p.update(payload_extra or {})
        res.violations.append(p)
    elif status == tv.INCONCLUSIVE:
        res.inconclusive.append({"program": src[:300], "why": d.get("why"), "label": label})
    elif status == tv.HARNESS:
        res.harness.append("%s: %s | %s" % (label, d.get("why"), src[:300]) + " " + str({k: v for k, v in d.items() if k != "why"})[:600])
    return status


def unit_helpers(u):
    """C05: cases = list of dict(helpers=source text of helper definitions, lam=source of the lambda, names=[helper names], opaque={name: rtype})"""
    from vlib import srcgen
    res = UnitResult()
    cases = u["cases"]
    text = MODULE_HEAD
    for i, c in enumerate(cases):
        text += c["helpers"].rstrip() + "\n\n\n"
        text += "def build_%d(ds):\n    return ds.Select(\n        %s\n    )\n\n\n" % (i, c["lam"])
    with srcgen.Scratch() as sc:
        try:
            mod = sc.load(text, "c05")
        except Exception as e:  # noqa
            res.harness.append("generated module does not import: %r" % (e,))
            return res
        mast = ast.parse(text)
        for i, c in enumerate(cases):
            ds = mod.DS()
            # the truth is the lambda as written (helpers interpreted by their own return expression), unless the case spells it out
            truth_lam = ast.parse(c.get("truth", c["lam"]), mode="eval").body
            P = ast.Call(ast.Name("Select", ast.Load()), [ast.Name("ds", ast.Load()), truth_lam], [])
            try:
                st = getattr(mod, "build_%d" % i)(ds)
            except Exception as e:  # noqa
                res.violations.append(dict(engine="T", kind="Select raised %s: %s" % (type(e).__name__, e), program=c["lam"], helpers=c["helpers"], label=u.get("label", "helpers"), N=u["N"]))
                continue
            emitted = st.query_ast.args[1]
            P2 = ast.Call(ast.Name("Select", ast.Load()), [ast.Name("ds", ast.Load()), emitted], [])
            names = set(c["names"])

            def env_builder(cx, names=names):
                return helper_funs(mast, names)

            def extra_env(w, names=names):
                return {n: getattr(mod, n) for n in names if hasattr(mod, n) and n not in c.get("opaque", {})}
            decide_pair(P, P2, u["N"], res, u.get("label", "helpers"), env_builder=env_builder, extra_env=extra_env, rtypes=c.get("opaque"),
                        payload_extra={"helpers": c["helpers"], "lam": c["lam"], "unit": "helpers"})
    return res


UNITS["helpers"] = unit_helpers


class _RootToDs(ast.NodeTransformer):
    "the EventDataset() root node of an emitted query stands for `ds`"

    def visit_Call(self, n):
        if isinstance(n.func, ast.Name) and n.func.id == "EventDataset" and not n.args:
            return ast.Name("ds", ast.Load())
        return self.generic_visit(n)


def run_async(coro):
    try:
        coro.send(None)
    except StopIteration as e:
        return e.value
    raise RuntimeError("executor suspended")


def unit_chains(u):
    """C01: generated modules with fluent chains through the real API; truth = the chain as written (function form, captured values
    substituted); compared at the executor and after the backend passes"""
    from vlib import srcgen
    from vlib.qsem import world
    from vlib.skel import chains
    res = UnitResult()
    typed = u["typed"]
    cases_ = chains.cases(u["seed"], u["count"], typed, start=u.get("start", 0))
    if u.get("deep") and not typed:
        cases_ += chains.deep_cases(u.get("start", 0) + len(cases_))
    text = chains.module_text(cases_, typed)
    sigs = chains.typed_sigs() if typed else None
    rtypes = dict(chains.TYPED_RTYPES) if typed else {}
    res.cases = len(cases_)
    with srcgen.Scratch() as sc:
        try:
            mod = sc.load(text, "c01")
        except Exception as e:  # noqa
            res.harness.append("generated module does not import: %r\n%s" % (e, text[-1500:]))
            return res
        mast = ast.parse(text)
        for i, c in enumerate(cases_):
            idx = u.get("start", 0) + i
            build = getattr(mod, "build_%d" % idx)
            ds = mod.TDS() if typed else mod.UDS()
            try:
                streams = build(ds)
            except ValueError as e:
                if str(e).startswith("The Where filter must return a boolean") or str(e).startswith("IfExp branches have different types"):
                    res.refused = getattr(res, "refused", 0) + 1    # designed refusal: the type follower cannot establish the type
                    continue
                res.violations.append(dict(engine="T", kind="building the chain raised ValueError: %s" % e, program=c["build"], label="chain", N=u["N"], unit="chains", typed=typed))
                continue
            except Exception as e:  # noqa
                res.violations.append(dict(engine="T", kind="building the chain raised %s: %s" % (type(e).__name__, e), program=c["build"], label="chain", N=u["N"], unit="chains", typed=typed))
                continue
            for st, truth_src in zip(streams, c["truths"]):
                P = ast.parse(truth_src, mode="eval").body
                try:
                    emitted = run_async(st.value_async())
                except Exception as e:  # noqa
                    res.violations.append(dict(engine="T", kind="value_async raised %s: %s" % (type(e).__name__, e), program=c["build"], label="chain", N=u["N"], unit="chains", typed=typed))
                    continue
                A0 = _RootToDs().visit(copy.deepcopy(emitted))
                points = [("executor", A0)]
                try:
                    A1 = t_fnform(copy.deepcopy(A0))
                    A2 = t_aggregate(copy.deepcopy(A1))
                    A3 = t_simplify(copy.deepcopy(A2))
                    if u.get("all_points"):
                        points += [("after method->function form", A1), ("after aggregate shortcuts", A2)]
                    points.append(("after the three backend passes", A3))
                except Exception as e:  # noqa
                    res.violations.append(dict(engine="T", kind="backend pass raised %s: %s" % (type(e).__name__, e), program=c["build"], truth=truth_src, label="chain", N=u["N"], unit="chains", typed=typed))
                    continue

                def env_builder(cx):
                    return helper_funs(mast, {"h_inc", "h_gt"})

                def extra_env(w):
                    return {"h_inc": mod.h_inc, "h_gt": mod.h_gt}
                for label, A in points:
                    s = decide_pair(P, A, u["N"], res, "chain/%s/%s" % ("typed" if typed else "untyped", label), env_builder=env_builder, extra_env=extra_env,
                                    rtypes=rtypes, sigs=sigs, payload_extra={"build": c["build"], "truth": truth_src, "unit": "chains", "typed": typed, "point": label})
                    if s != tv.OK:
                        break
            # the chain as Python runs it, on a concrete dataset: compared with CPython's evaluation of the truth AST
            try:
                pychk = python_chain_check(mod, build, c, sigs, rtypes, u["N"], u["seed"] + i)
                res.stats.checks += 0
                if pychk:
                    res.harness.append("truth AST disagrees with the Python chain itself: %s\n%s" % (pychk, c["build"][:600]))
                else:
                    res.py_chain_runs = getattr(res, "py_chain_runs", 0) + 1
            except Exception as e:  # noqa
                res.harness.append("python chain check crashed: %r\n%s" % (e, c["build"][:400]))
    return res


def python_chain_check(mod, build, case, sigs, rtypes, N, seed):
    """validates the oracle: the generated chain, run by CPython with its real lambdas on an in-memory dataset, equals CPython's
    evaluation of the truth AST on the same dataset (dataset taken from a satisfying model of 'the truth runs without error')"""
    import z3
    from vlib.qsem import enc, world
    for truth_src in case["truths"][:1]:
        P = ast.parse(truth_src, mode="eval").body
        rt = dict(gen.RTYPES)
        rt.update(rtypes or {})
        cx = enc.Ctx(N=N, sigs=sigs, rtypes=rt)
        mast_h = ast.parse(inspect_source(mod))
        env = {"ds": enc.dataset(cx)}
        env.update(helper_funs(mast_h, {"h_inc", "h_gt"}))
        try:
            vo, eo = enc.encode(cx, P, env)
        except enc.EncodingError:
            return None
        s = z3.Solver()
        s.set("timeout", 10000)
        s.add(cx.side)
        s.add(cx.distinctness())
        s.add(z3.Not(z3.Or(eo)) if eo else z3.BoolVal(True))
        s.add(z3.Int("ds.len") >= min(1, N))
        if str(s.check()) != "sat":
            return None
        w = world.World(cx, s.model())
        e = w.env({"h_inc": mod.h_inc, "h_gt": mod.h_gt})
        want = world.run(P, e)
        got_streams = build(world.PyStream(e["ds"], dict(e, Pair=mod.Pair, PairNT=mod.PairNT)))
        got = ("ok", world.norm(got_streams[0]))
        if want != got:
            return "truth %r vs python chain %r" % (want, got)
    return None


_SRC_CACHE = {}


def inspect_source(mod):
    if mod.__name__ not in _SRC_CACHE:
        with open(mod.__file__) as f:
            _SRC_CACHE[mod.__name__] = f.read()
    return _SRC_CACHE[mod.__name__]


UNITS["chains"] = unit_chains


# ------------------------------------------------------------------ C03: source layouts
def _lambda_code(src):
    code = compile(src, "<expected>", "eval")
    for c in code.co_consts:
        if hasattr(c, "co_code"):
            return c
    return None


def same_code(a, b):
    "two code objects are the same function body (positions ignored)"
    if a is None or b is None:
        return False
    if a.co_code != b.co_code or a.co_names != b.co_names or a.co_varnames != b.co_varnames or a.co_argcount != b.co_argcount:
        return False
    ca = [c for c in a.co_consts]
    cb = [c for c in b.co_consts]
    if len(ca) != len(cb):
        return False
    for x, y in zip(ca, cb):
        if hasattr(x, "co_code") or hasattr(y, "co_code"):
            if not (hasattr(x, "co_code") and hasattr(y, "co_code") and same_code(x, y)):
                return False
        elif x != y or type(x) is not type(y):
            return False
    return True


def unit_layouts(u):
    from vlib import srcgen
    from vlib.skel import layouts
    import func_adl.object_stream as osm
    from func_adl import EventDataset

    class DS(EventDataset):
        async def execute_result_async(self, a, title=None):
            return a

    res = UnitResult()
    all_cases = layouts.cases(u["seed"], u.get("thorough", False))
    cases_ = all_cases[u["lo"]:u["hi"]]
    text = layouts.render(cases_)
    records = []
    real = osm.parse_as_ast

    def recorder(f, caller_name=None):
        if not callable(f):
            return real(f, caller_name)
        try:
            r = real(f, caller_name)
        except Exception as e:  # noqa
            records.append((f, caller_name, None, e))
            raise
        records.append((f, caller_name, r, None))
        return r

    res.layout_stats = {"cases": len(cases_), "calls": 0, "recovered_identical": 0, "raised_undocumented": 0, "by_kind": {}}
    with srcgen.Scratch() as sc:
        try:
            mod = sc.load(text, "c03")
        except Exception as e:  # noqa
            res.harness.append("generated layout module does not import: %r" % (e,))
            return res
        osm.parse_as_ast = recorder
        try:
            for k, c in enumerate(cases_):
                del records[:]
                label = "%s / %s" % (c["kind"], c.get("ctx"))
                try:
                    getattr(mod, "case_%d" % k)(DS())
                    case_exc = None
                except Exception as e:  # noqa
                    case_exc = e
                if case_exc is not None and (not records or records[-1][3] is not case_exc):
                    res.harness.append("layout case raised outside source recovery: %r\n%s" % (case_exc, c["code"]))
                    continue
                bk = res.layout_stats["by_kind"].setdefault(c["kind"], 0)
                res.layout_stats["by_kind"][c["kind"]] = bk + 1
                for i, (f, caller, got, exc) in enumerate(records):
                    res.layout_stats["calls"] += 1
                    if i >= len(c["lams"]):
                        res.harness.append("more calls recorded than the generator expects: %s" % c["code"])
                        break
                    exp_src = c["lams"][i]
                    if "{S}" in exp_src:
                        strs = [k for k in f.__code__.co_consts if isinstance(k, str) and "\n" in k]
                        if len(strs) != 1:
                            res.harness.append("cannot read the multi-line string constant from the passed function: %s" % c["code"])
                            continue
                        exp_src = exp_src.replace("{S}", repr(strs[0]))
                    # layouts whose lambda captures a variable spell out what each call has to record
                    truth_src = c["truths"][i] if "truths" in c else exp_src
                    if f.__name__ == "<lambda>" and "truths" not in c and not same_code(f.__code__, _lambda_code(exp_src)):
                        res.harness.append("the callable passed is not the lambda the generator believes (%s): %s" % (exp_src, c["code"]))
                        continue
                    payload = dict(engine="T", unit="layouts", layout=c["code"], context=c.get("ctx"), expected=exp_src, caller=caller, label=label, documented=c["documented"], N=u["N"])
                    if c.get("known_id"):
                        payload["known_id"] = c["known_id"]
                    if exc is not None:
                        if c["documented"]:
                            res.violations.append(dict(payload, kind="documented layout not recovered: %s: %s" % (type(exc).__name__, str(exc)[:200]), program=exp_src))
                        else:
                            res.layout_stats["raised_undocumented"] += 1
                        continue
                    if c.get("as_written_ok") and ast.dump(got) == ast.dump(ast.parse(exp_src, mode="eval").body):
                        res.layout_stats["recovered_identical"] += 1
                        continue
                    P = ast.Call(ast.Name("Select", ast.Load()), [ast.Name("ds", ast.Load()), ast.parse(truth_src, mode="eval").body], [])
                    P2 = ast.Call(ast.Name("Select", ast.Load()), [ast.Name("ds", ast.Load()), got], [])
                    if ast.dump(P) == ast.dump(P2):
                        res.layout_stats["recovered_identical"] += 1
                    st = decide_pair(P, P2, u["N"], res, label, rtypes={"f": "i"}, payload_extra=dict(payload, recovered=ast.unparse(got)[:400]))
                    if st == tv.SKIP and ast.dump(P) != ast.dump(P2):
                        res.violations.append(dict(payload, kind="recorded lambda differs from the one passed (not encodable, compared structurally)", program=exp_src,
                                                   recovered=ast.unparse(got)[:400]))
        finally:
            osm.parse_as_ast = real
    return res


UNITS["layouts"] = unit_layouts
