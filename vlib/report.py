"""Evidence files, replay files, VIOLATION / KNOWN-FINDING lines, known-findings file."""
import hashlib
import json
import os
import sys
import time

ROOT = os.path.dirname(os.path.dirname(os.path.abspath(__file__)))
EVID = os.environ.get("VERIF_EVIDENCE_DIR") or os.path.join(ROOT, "evidence")   # the override is a development knob (seedtest)
REPLAYS = os.environ.get("VERIF_REPLAYS_DIR") or os.path.join(ROOT, "replays")
KNOWN = os.path.join(ROOT, "known_findings.json")

EXIT_OK = 0
EXIT_VIOLATION = 1
EXIT_HARNESS = 3


def seed() -> int:
    try:
        return int(os.environ.get("VERIF_SEED", "0"))
    except ValueError:
        return 0


def load_known():
    """known_findings.json: {"findings": [ {property, id, harness, input_class, witness, what} ],
    "fixed": ["fixed: property=.. <commit> <what>"]}.  Never written at run time."""
    try:
        with open(KNOWN) as f:
            return json.load(f)
    except FileNotFoundError:
        return {"findings": [], "fixed": []}


def known_for(prop):
    return [k for k in load_known().get("findings", []) if k.get("property") == prop]


def _jsonable(o):
    if isinstance(o, (str, int, bool)) or o is None:
        return o
    if isinstance(o, float):
        return o if o == o and abs(o) != float("inf") else repr(o)
    if isinstance(o, (list, tuple)):
        return [_jsonable(x) for x in o]
    if isinstance(o, dict):
        return {str(k): _jsonable(v) for k, v in o.items()}
    if isinstance(o, bytes):
        return {"__bytes__": o.hex()}
    return repr(o)


def write_replay(prop, payload) -> str:
    os.makedirs(REPLAYS, exist_ok=True)
    payload = dict(_jsonable(payload), property=prop)
    blob = json.dumps(payload, sort_keys=True, indent=1)
    h = hashlib.sha1(blob.encode()).hexdigest()[:12]
    path = os.path.join(REPLAYS, "%s-%s.json" % (prop, h))
    with open(path, "w") as f:
        f.write(blob)
    return path


class Run:
    """Collects what one check run did and writes the evidence file at the end."""

    def __init__(self, prop, tier, level):
        self.prop, self.tier, self.level = prop, tier, level
        self.t0 = time.time()
        self.coverage = {}
        self.assumptions = []
        self.violations = []  # (description, replay payload)
        self.known_hit = []  # descriptions
        self.harness_errors = []
        self.inconclusive = []

    def violation(self, what, payload):
        self.violations.append((what, payload))

    def harness_error(self, what):
        self.harness_errors.append(what)

    def finish(self) -> int:
        wall = time.time() - self.t0
        cov = dict(self.coverage)
        cov.setdefault("samples", ["(none)"])
        cov["inconclusive"] = _jsonable(self.inconclusive[:50])
        cov["inconclusive_count"] = len(self.inconclusive)
        cov["harness_errors"] = _jsonable(self.harness_errors[:20])
        cov["known_findings_reproduced"] = _jsonable(self.known_hit)
        ev = {
            "property_id": self.prop,
            "tier": self.tier,
            "seed": seed(),
            "level": self.level,
            "coverage": _jsonable(cov),
            "assumptions": self.assumptions,
            "wall_s": round(wall, 2),
            "violations": len(self.violations),
        }
        os.makedirs(EVID, exist_ok=True)
        tmp = os.path.join(EVID, ".%s.%d.tmp" % (self.prop, os.getpid()))
        with open(tmp, "w") as f:
            json.dump(ev, f, indent=1, sort_keys=True)
        os.replace(tmp, os.path.join(EVID, "%s.json" % self.prop))
        for k in self.known_hit:
            print("KNOWN-FINDING: property=%s %s" % (self.prop, k))
        if self.harness_errors:
            for h in self.harness_errors[:20]:
                print("HARNESS-ERROR: property=%s %s" % (self.prop, h))
        seen = set()
        for what, payload in self.violations:
            p = write_replay(self.prop, dict(payload, what=what))
            if p in seen:
                continue
            seen.add(p)
            print("VIOLATION property=%s replay=%s" % (self.prop, p))
            print("  " + str(what)[:600])
        summary = {k: v for k, v in cov.items() if isinstance(v, (int, float, bool, str)) and k not in ("rule", "explanation")}
        print("%s %s: wall=%.1fs violations=%d inconclusive=%d %s" % (
            self.prop, self.tier, wall, len(self.violations), len(self.inconclusive), json.dumps(summary)[:900]))
        sys.stdout.flush()
        if self.violations:
            return EXIT_VIOLATION
        if self.harness_errors:
            return EXIT_HARNESS
        return EXIT_OK
