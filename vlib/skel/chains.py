"""Case generator for C01: fluent operator chains written as real Python (generated modules), with the truth query AST.

One generation yields a *truth* AST in function form; the Python source is a rendering of it in which captured constants become
names bound in the enclosing scopes, dataclass / NamedTuple records become constructor calls, and each lambda is supplied as a
callable, a source string or a pre-parsed ast.Lambda."""
import ast
import copy
import inspect
import random

from vlib.skel import gen
from vlib.skel.gen import B, I, L, O, N, Rc, Sq, Tp, is_rec, is_seq

MODEL_SRC = '''
import ast
from dataclasses import dataclass
from typing import Iterable, NamedTuple

from func_adl import EventDataset


class Obj:
    pass


def _mi_pt(self, scale: int = 1) -> int: ...
def _mi_eta(self) -> int: ...
def _mb_ok(self) -> bool: ...
def _mo_p(self) -> Obj: ...
def _mso_jets(self, name: str = "d") -> Iterable[Obj]: ...
def _mso_trk(self, n: int = 3) -> Iterable[Obj]: ...
def _msi_hits(self) -> Iterable[int]: ...


for _n, _f in list(globals().items()):
    if _n.startswith("_m") and callable(_f):
        _f.__name__ = _n[1:]
        setattr(Obj, _n[1:], _f)


@dataclass
class Pair:
    a: int
    b: Obj


class PairNT(NamedTuple):
    a: int
    b: Obj


class UDS(EventDataset):
    async def execute_result_async(self, a, title=None):
        return a


class TDS(EventDataset[Obj]):
    def __init__(self):
        super().__init__(Obj)

    async def execute_result_async(self, a, title=None):
        return a


G_CUT = 4


class Consts:
    class Inner:
        LIMIT = 6


def h_inc(a):
    return a + 1


def h_gt(a, b):
    return a.%(PT)s > b


'''

TYPED_RTYPES = {"mi_pt": "i", "mi_eta": "i", "mb_ok": "b", "mo_p": "o", "mso_jets": "so", "mso_trk": "so", "msi_hits": "si"}


def typed_sigs():
    def mi_pt(scale=1): ...
    def mso_jets(name="d"): ...
    def mso_trk(n=3): ...
    def mi_eta(): ...
    def mb_ok(): ...
    def mo_p(): ...
    def msi_hits(): ...
    return {f.__name__: inspect.signature(f) for f in (mi_pt, mso_jets, mso_trk, mi_eta, mb_ok, mo_p, msi_hits)}


CAPTURES = [("k_loc", 2, "local"), ("G_CUT", 4, "global"), ("Consts.Inner.LIMIT", 6, "class")]
TERMINALS = [None, ("AsAwkwardArray", "ResultAwkwardArray", ["c"]), ("AsPandasDF", "ResultPandasDF", ["c"]),
             ("AsROOTTTree", "ResultTTree", ["c"]), ("AsParquetFiles", "ResultParquet", ["c"])]


class ChainGen:
    def __init__(self, ch, typed):
        self.ch = ch
        self.typed = typed
        self.g = gen.G(ch, py=True, typed=typed, feats=["first", "tuple", "count", "ifexp", "bool", "calllam", "neg", "nested", "comp", "sum", "dict"])
        self.g.rec_access = "fld"      # records are dataclass / NamedTuple instances in the Python source
        self.uses_local = False

    # ---- decorations of generated bodies
    def capture(self, body, t):
        "mention a captured value: marks a Constant with the name it is captured from"
        c = self.ch.pick(4)
        if c == 0:
            return body
        name, val, kind = CAPTURES[c - 1]
        k = ast.Constant(val)
        k._cap = name
        if kind == "local":
            self.uses_local = True
        if t == I:
            return ast.BinOp(body, ast.Add(), k)
        if t == B:
            return ast.BoolOp(ast.And(), [body, ast.Compare(k, [ast.Gt()], [ast.Constant(0)])])
        return body

    def helper(self, body, t):
        c = self.ch.pick(3)
        if c == 0 or t != I:
            return body
        if c == 1:
            return ast.Call(N("h_inc"), [body], [])
        return ast.BinOp(ast.Call(N("h_inc"), [body], []), ast.Sub(), ast.Constant(1))

    def stage_lambda(self, op, t):
        g = self.g
        if op == "Select":
            def bodyfn(sc, dd):
                e, t2 = self.item(sc, dd)
                if t2 in (I, B):
                    e = self.helper(self.capture(e, t2), t2)
                return e, t2
            return g.lam1(t, bodyfn, [], 2)
        if op == "Where":
            def wbody(sc, dd):
                e = self.capture(g.expr(B, sc, dd), B)
                if not isinstance(e, (ast.Compare, ast.BoolOp)):
                    # the filter of a stream-level Where must be recognisably boolean (comparison / boolean combination)
                    e = ast.BoolOp(ast.And(), [e, ast.Constant(True)])
                return e, B
            return g.lam1(t, wbody, [], 2)
        et = [O, I][self.ch.pick(2)]
        lm, _ = g.lam1(t, lambda sc, dd: (g.expr(Sq(et), sc, dd), Sq(et)), [], 2)
        return lm, et

    def item(self, scope, d):
        "stage result: like G.item_expr but records are dataclass / NamedTuple constructor calls"
        g = self.g
        kinds = ["int", "obj", "seqo", "seqi", "tuple", "rec"]
        kind = kinds[self.ch.pick(len(kinds))]
        if kind == "rec":
            a, b = g.expr(I, scope, d), g.expr(O, scope, d)
            node = ast.Dict([ast.Constant("a"), ast.Constant("b")], [a, b])
            node._dc = (["Pair", "PairNT"][self.ch.pick(2)], self.ch.pick(3))
            return node, Rc(a=I, b=O)
        if kind == "int":
            return g.expr(I, scope, d), I
        if kind == "obj":
            return g.expr(O, scope, d), O
        if kind == "tuple":
            ts = [[I, O][self.ch.pick(2)], [I, Sq(O)][self.ch.pick(2)]]
            return ast.Tuple([g.expr(x, scope, d) for x in ts], L), Tp(*ts)
        if kind == "seqo":
            return g.expr(Sq(O), scope, d), Sq(O)
        return g.expr(Sq(I), scope, d), Sq(I)

    def chain(self, nstages):
        "-> list of (op, lambda truth AST) and the final item type"
        t = O
        stages = []
        for s in range(nstages):
            op = ["Select", "Where", "SelectMany"][self.ch.pick(3)]
            if op == "SelectMany" and t != O:
                op = "Select"
            if op == "Select":
                lm, t2 = self.stage_lambda(op, t)
                stages.append((op, lm))
                t = t2
            elif op == "Where":
                lm, _ = self.stage_lambda(op, t)
                stages.append((op, lm))
            else:
                lm, et = self.stage_lambda(op, t)
                stages.append((op, lm))
                t = et
        return stages, t


class _ToSource(ast.NodeTransformer):
    "truth AST -> the Python the user writes: captured constants become names, records become constructor calls"

    def visit_Constant(self, node):
        cap = getattr(node, "_cap", None)
        if cap:
            parts = cap.split(".")
            n = ast.Name(parts[0], L)
            for p in parts[1:]:
                n = ast.Attribute(n, p, L)
            return n
        return node

    def visit_Dict(self, node):
        self.generic_visit(node)
        dc = getattr(node, "_dc", None)
        if dc is None:
            return node
        cls, style = dc
        a, b = node.values
        if style == 0:
            return ast.Call(N(cls), [a, b], [])
        if style == 1:
            return ast.Call(N(cls), [], [ast.keyword("b", b), ast.keyword("a", a)])
        return ast.Call(N(cls), [a], [ast.keyword("b", b)])


def has_mark(n, attr):
    return any(hasattr(x, attr) for x in ast.walk(n))


def render_case(idx, ch, typed):
    """-> dict(build=python source of build_<idx>(ds), truths=[function-form truth query sources], lam_asts=[...] )"""
    cg = ChainGen(ch, typed)
    n1 = 1 + ch.pick(3)
    stages, t = cg.chain(n1)
    # renaming: every lambda's binders renamed with maximal re-use (same rendering for truth and source)
    stages = [(op, gen.rename_binders(lm, "reuse")) for op, lm in stages]
    branch = ch.pick(3) == 0 and len(stages) >= 1
    term = TERMINALS[ch.pick(len(TERMINALS))]
    lines = []
    lam_table = []          # sources of lambdas supplied as pre-parsed ast
    truths = []

    def supply(lm):
        src_ast = _ToSource().visit(copy.deepcopy(lm))
        text = ast.unparse(src_ast)
        free_of_marks = not has_mark(lm, "_cap") and not has_mark(lm, "_dc") and "h_inc" not in text
        kind = ch.pick(3) if free_of_marks else 0
        if kind == 1:
            return repr(text)
        if kind == 2:
            lam_table.append(text)
            return "LAMS_%d[%d]" % (idx, len(lam_table) - 1)
        return text

    def strip(lm):
        c = copy.deepcopy(lm)
        return c

    cur = "ds"
    truth = N("ds")
    k = 0
    for op, lm in stages:
        lines.append("    s%d = %s.%s(\n        %s\n    )" % (k, cur, op, supply(lm)))
        truth = ast.Call(N(op), [truth, strip(lm)], [])
        cur = "s%d" % k
        k += 1
    results = []

    def finish(cur, truth):
        if term is None:
            return cur, truth
        meth, tag, cols = term
        if meth == "AsROOTTTree":
            return "%s.AsROOTTTree('f.root', 'tree', %r)" % (cur, cols), ast.Call(N(tag), [truth, ast.parse(repr(cols), mode="eval").body, ast.Constant("tree"), ast.Constant("f.root")], [])
        if meth == "AsParquetFiles":
            return "%s.AsParquetFiles('f.pq', %r)" % (cur, cols), ast.Call(N(tag), [truth, ast.parse(repr(cols), mode="eval").body, ast.Constant("f.pq")], [])
        return "%s.%s(%r)" % (cur, meth, cols), ast.Call(N(tag), [truth, ast.parse(repr(cols), mode="eval").body], [])

    r, tr = finish(cur, truth)
    results.append(r)
    truths.append(tr)
    if branch:
        # a sibling derived from the parent of the last stage
        parent = "ds" if k == 1 else "s%d" % (k - 2)
        ptruth = truth.args[0]
        cg2_t = None
        # type of the parent's items: recompute by regenerating is not possible; derive a Where on the parent only when it is the dataset
        if parent == "ds":
            lm, _ = cg.stage_lambda("Where", O)
            lm = gen.rename_binders(lm, "reuse")
            lines.append("    b0 = %s.Where(\n        %s\n    )" % (parent, supply(lm)))
            results.append("b0")
            truths.append(ast.Call(N("Where"), [copy.deepcopy(ptruth), strip(lm)], []))
    pre = ""
    if lam_table:
        pre = "LAMS_%d = [%s]\n\n\n" % (idx, ", ".join("ast.parse(%r).body[0].value" % s for s in lam_table))
    if cg.uses_local:
        # the same lambda code is used twice with another value of the captured local: every query must carry the value of ITS call
        head = "def chain_%d(ds, k_loc):\n" % idx
        body = "\n".join(lines) + "\n    return [%s]\n" % ", ".join(results)
        head2 = "\n\ndef build_%d(ds):\n    first = chain_%d(ds, 2)\n    second = chain_%d(ds, 5)\n    return first + second\n" % (idx, idx, idx)

        def second(t):
            t = copy.deepcopy(t)
            for n in ast.walk(t):
                if isinstance(n, ast.Constant) and getattr(n, "_cap", None) == "k_loc":
                    n.value = 5
            return t
        all_truths = truths + [second(t) for t in truths]
        return dict(build=pre + head + body + head2, truths=[ast.unparse(x) for x in all_truths], typed=typed)
    head = "def build_%d(ds):\n" % idx
    body = "\n".join(lines) + "\n    return [%s]\n" % ", ".join(results)
    return dict(build=pre + head + body, truths=[ast.unparse(x) for x in truths], typed=typed)


def cases(seed, count, typed, maxpicks=40, start=0):
    rnd = random.Random(seed)
    out = []
    tries = 0
    while len(out) < count and tries < count * 30:
        tries += 1
        ch = gen.Chooser((), rnd=rnd, maxpicks=maxpicks)
        try:
            out.append(render_case(start + len(out), ch, typed))
        except gen.Truncated:
            continue
    return out


# hand-written deep chains (method form, supplied as source strings so that no renaming happens before the backend passes):
# a fusion nested in an outer lambda, an intermediate lambda level, and an innermost binder that may re-use the outer name
DEEP_LAMBDAS = [
    "lambda {A}: {A}.so_jets.Select(lambda {B}: ({B}, {A}.i_pt)).Select(lambda {C}: {C}[0].so_trk.Select(lambda {P}: {P}.so_jets.Where(lambda {Q}: {Q}.i_pt > {C}[1]).Count()))",
    "lambda {A}: {A}.so_jets.Select(lambda {B}: ({B}, {A}.i_pt)).Select(lambda {C}: {C}[0].so_trk.Select(lambda {P}: {P}.si_hits.Select(lambda {Q}: {Q} + {C}[1])))",
    "lambda {A}: {A}.so_jets.Select(lambda {B}: ({B}.so_trk, {A}.o_p)).Where(lambda {C}: {C}[0].Where(lambda {P}: {P}.so_jets.Where(lambda {Q}: {Q}.i_pt > {C}[1].i_pt).Count() > 0).Count() > 0).Count()",
    "lambda {A}: [[{Q}.i_pt + {C}[1] for {Q} in {C}[0].so_trk] for {C} in {A}.so_jets.Select(lambda {B}: ({B}, {A}.i_pt))]",
    # method calls with keyword / positional arguments on a First() result (the backend passes move the call under the First)
    "lambda {A}: {A}.so_jets.First().mi_e(1, k={A}.i_pt)",
    "lambda {A}: {A}.so_jets.Select(lambda {B}: {B}.so_trk.First().mi_e(2, k={B}.i_pt) + {A}.i_eta)",
    "lambda {A}: {A}.so_jets.Where(lambda {B}: {B}.i_pt > 1).First().mi_pt({A}.i_eta)",
]

# hand-written chains with real lambdas that capture a local: (lambda source, the two values the factory is called with)
DEEP_CALLABLES = [
    ("lambda e: e.i_pt if k_loc else -1", (2, 0)),
    ("lambda e: (e.i_pt if k_loc else e.i_eta) + k_loc", (5, 1)),
    ("lambda e: e.so_jets.Where(lambda j: j.i_pt > k_loc if k_loc else j.b_ok).Count()", (3, 0)),
    ("lambda e: e.so_jets.Select(lambda e: e.i_pt + k_loc).Where(lambda k_loc: k_loc > 1).Count() + k_loc", (2, 7)),
]


def deep_cases(start, pool=("e", "j")):
    from vlib.skel import gen as _gen
    out = []
    for t in DEEP_LAMBDAS:
        ph = [p for p in ("A", "B", "C", "P", "Q") if "{%s}" % p in t]
        for src, _ in _gen.family_instances(t, ph, pool):
            idx = start + len(out)
            out.append(dict(build="def build_%d(ds):\n    return [ds.Select(\n        %r\n    )]\n" % (idx, src), truths=["Select(ds, %s)" % src], typed=False))
    for src, vals in DEEP_CALLABLES:
        idx = start + len(out)
        build = ("def chain_%d(ds, k_loc):\n    return [ds.Select(\n        %s\n    )]\n\n\ndef build_%d(ds):\n    return chain_%d(ds, %r) + chain_%d(ds, %r)\n"
                 % (idx, src, idx, idx, vals[0], idx, vals[1]))
        out.append(dict(build=build, truths=["Select(ds, %s)" % _subst_free(src, "k_loc", v) for v in vals], typed=False))
    return out


def _subst_free(src, name, value):
    "source of the lambda with the free occurrences of `name` replaced by the constant"
    tree = ast.parse(src, mode="eval").body

    def walk(n, bound):
        if isinstance(n, ast.Lambda):
            b2 = bound | {a.arg for a in n.args.args}
            return ast.Lambda(n.args, walk(n.body, b2))
        if isinstance(n, ast.Name):
            return ast.Constant(value) if n.id == name and n.id not in bound else n
        for f, v in ast.iter_fields(n):
            if isinstance(v, list):
                setattr(n, f, [walk(x, bound) if isinstance(x, ast.AST) else x for x in v])
            elif isinstance(v, ast.AST):
                setattr(n, f, walk(v, bound))
        return n
    return ast.unparse(ast.fix_missing_locations(walk(tree, frozenset())))


def module_text(cases_, typed):
    return MODEL_SRC % {"PT": "mi_pt()" if typed else "i_pt"} + "\n\n".join(c["build"] for c in cases_) + "\n"
