"""Case generators for C05 (captured one-line helpers): (helper definitions, lambda source, helper names)."""
import ast
import itertools
import random

from vlib.skel import gen

# hand-written mechanism families; {H} is replaced by a unique prefix per case, {a} {b} {e} {j} by names from the pool
FAMILIES = [
    # helper body is a bare parameter
    ("def {H}id({a}):\n    return {a}\n", "lambda {e}: {H}id({e}.i_pt)"),
    ("def {H}id({a}):\n    return {a}\n", "lambda {e}: {H}id({e}.o_p).i_pt + {H}id({e}.i_eta)"),
    ("def {H}snd({a}, {b}):\n    return {b}\n", "lambda {e}: {H}snd({e}.i_pt, {e}.i_eta)"),
    ("def {H}snd({a}, {b}):\n    return {b}\n", "lambda {e}: {H}snd({b}={e}.i_pt, {a}={e}.i_eta)"),
    # arithmetic, positional / keyword / re-ordered
    ("def {H}sub({a}, {b}):\n    return {a} - {b}\n", "lambda {e}: {H}sub({e}.i_pt, {e}.i_eta)"),
    ("def {H}sub({a}, {b}):\n    return {a} - {b}\n", "lambda {e}: {H}sub({b}={e}.i_pt, {a}={e}.i_eta)"),
    ("def {H}sub({a}, {b}):\n    return {a} - {b}\n", "lambda {e}: {H}sub({e}.i_pt, {b}={e}.i_eta)"),
    # helper given as a lambda
    ("{H}lm = lambda {a}: {a}.i_pt + 1\n", "lambda {e}: {H}lm({e}.o_p)"),
    ("{H}lm = lambda {a}, {b}: {a}.i_pt - {b}\n", "lambda {e}: {H}lm({e}.o_p, {e}.i_eta) + {H}lm({b}={e}.i_pt, {a}={e})"),
    # nested lambda inside the helper re-using a parameter name / the call-site name
    ("def {H}cnt({a}):\n    return {a}.so_jets.Where(lambda {a}: {a}.i_pt > 1).Count()\n", "lambda {e}: {H}cnt({e})"),
    ("def {H}cnt({a}, {b}):\n    return {a}.so_jets.Where(lambda {j}: {j}.i_pt > {b}).Count()\n", "lambda {e}: {H}cnt({e}, {e}.i_pt)"),
    ("def {H}sel({a}):\n    return {a}.Select(lambda {a}: {a}.i_pt + 1)\n", "lambda {e}: {H}sel({e}.so_jets)"),
    ("def {H}sel({a}, {b}):\n    return {a}.Select(lambda {j}: {j}.i_pt + {b})\n", "lambda {e}: {H}sel({e}.so_jets, {e}.i_eta)"),
    ("def {H}sel({a}, {b}):\n    return {a}.Select(lambda {e}: {e}.i_pt + {b})\n", "lambda {e}: {H}sel({e}.so_jets, {e}.i_eta)"),
    # argument mentions a name that is also bound inside the helper
    ("def {H}f({a}):\n    return {a}.so_jets.Select(lambda {e}: {e}.i_pt + {a}.i_pt)\n", "lambda {e}: {H}f({e})"),
    ("def {H}f({a}):\n    return {a}.so_jets.Select(lambda {e}: {e}.i_pt + {a}.i_pt)\n", "lambda {e}: {H}f({e}.o_p)"),
    # call site inside a nested lambda, parameter names colliding
    ("def {H}g({a}, {b}):\n    return {a}.i_pt > {b}\n", "lambda {e}: {e}.so_jets.Where(lambda {j}: {H}g({j}, {e}.i_pt)).Count()"),
    ("def {H}g({a}, {b}):\n    return {a}.i_pt > {b}\n", "lambda {e}: {e}.so_jets.Where(lambda {a}: {H}g({a}, {e}.i_pt)).Count()"),
    # helpers calling helpers
    ("def {H}in({a}):\n    return {a}.i_pt + 1\n\n\ndef {H}out({a}, {b}):\n    return {H}in({a}) - {H}in({b})\n", "lambda {e}: {H}out({e}, {e}.o_p)"),
    ("def {H}in({a}):\n    return {a}\n\n\ndef {H}out({b}):\n    return {H}in({b}.i_pt) + {H}in({b}.i_eta)\n", "lambda {e}: {H}out({e})"),
    ("def {H}in({a}, {b}):\n    return {a} - {b}\n\n\ndef {H}out({a}, {b}):\n    return {H}in({b}, {a})\n", "lambda {e}: {H}out({e}.i_pt, {e}.i_eta)"),
    # conditional / tuple / dict in the helper
    ("def {H}c({a}):\n    return {a}.i_pt if {a}.b_ok else {a}.i_eta\n", "lambda {e}: {H}c({e}) + {H}c({e}.o_p)"),
    ("def {H}t({a}, {b}):\n    return ({a}, {b})\n", "lambda {e}: {H}t({e}.i_pt, {e}.i_eta)[1] - {H}t({e}.i_eta, {e}.i_pt)[1]"),
    ("def {H}d({a}):\n    return {{'p': {a}.i_pt, 'q': {a}.i_eta}}\n", "lambda {e}: {H}d({e}).q - {H}d({e}.o_p)['p']"),
    # docstring in the helper (still single return)
    ("def {H}doc({a}):\n    'adds one'\n    return {a} + 1\n", "lambda {e}: {H}doc({e}.i_pt)"),
    # same helper used twice with different arguments, one of them a call of the helper
    ("def {H}inc({a}):\n    return {a} + 1\n", "lambda {e}: {H}inc({H}inc({e}.i_pt)) - {H}inc({e}.i_eta)"),
    # keyword-only and defaulted parameters: bound as Python binds them or left as a call
    ("def {H}kw({a}, *, {b}):\n    return {a} - {b}\n", "lambda {e}: {H}kw({e}.i_pt, {b}={e}.i_eta)"),
    ("def {H}kw({a}, *, {b}):\n    return {a} - {b}\n", "lambda {b}: {H}kw({b}.i_pt, {b}={b}.i_eta) + {b}.i_pt"),
    ("def {H}df({a}, {b}=7):\n    return {a} - {b}\n", "lambda {e}: {H}df({e}.i_pt) + {H}df({e}.i_pt, {e}.i_eta)"),
    ("def {H}df({a}, {b}=7):\n    return {a} - {b}\n", "lambda {b}: {H}df({b}.i_pt) - {b}.i_eta"),
    ("def {H}d2({a}, {b}=1, k_=2):\n    return {a} * {b} + k_\n", "lambda {e}: {H}d2({e}.i_pt, k_={e}.i_eta) - {H}d2({e}.i_pt, 3) + {H}d2({e}.i_pt) - {H}d2({e}.i_eta, {b}=4)"),
    ("def {H}d3({a}=1, {b}=2, k_=3):\n    return {a} * 100 + {b} * 10 + k_\n", "lambda {e}: {H}d3({b}={e}.i_pt) + {H}d3(k_={e}.i_pt) - {H}d3({e}.i_eta, k_={e}.i_pt)"),
    # call shapes python binds in other ways than name by name: such helpers are left as calls (or bound exactly as python binds them)
    ("def {H}va({a}, *rest):\n    return {a} + len(rest)\n", "lambda {e}: {H}va({e}.i_pt) + {H}va({e}.i_pt, 1, 2)"),
    ("def {H}kd({a}, *, {b}=2):\n    return {a} - {b}\n", "lambda {e}: {H}kd({e}.i_pt) + {H}kd({e}.i_eta, {b}={e}.i_pt)"),
    ("def {H}po({a}, /, {b}):\n    return {a} - {b}\n", "lambda {e}: {H}po({e}.i_pt, {e}.i_eta)"),
    ("def {H}st({a}, {b}):\n    return {a} - {b}\n", "lambda {e}: {H}st(*({e}.i_pt, {e}.i_eta))"),
    ("def {H}kw2({a}, **kw):\n    return {a} + kw['z']\n", "lambda {e}: {H}kw2({e}.i_pt, z={e}.i_eta)"),
    # a nested lambda in the helper with a default that mentions a parameter of the helper
    ("def {H}dl({a}, {b}):\n    return {a}.so_jets.Select(lambda {j}, k_={b}: {j}.i_pt + k_)\n", "lambda {e}: {H}dl({e}, {e}.i_eta)"),
    # the helper's body applies a lambda on the spot around a nested lambda / comprehension: two open expansions when the inner binder is met
    ("def {H}fm({a}):\n    return (lambda n_: {a}.so_jets.Select(lambda {j}: {j}.i_pt + {a}.i_pt + n_).Count())(3)\n", "lambda {e}: {H}fm({e}.o_p)"),
    ("def {H}fm({a}):\n    return (lambda n_: len([{j} for {j} in {a}.so_jets if {j}.i_pt > {a}.i_eta + n_]))(2)\n", "lambda {e}: {H}fm({e}.o_p) + {e}.i_pt"),
    # products of one factory wrapped in each other (same code object, different closures)
    ("def {H}base({a}):\n    return {a}.i_pt\n\n\ndef {H}mk(f_, k_):\n    def {H}inner({a}):\n        return f_({a}) + k_\n    return {H}inner\n\n\n{H}cl = {H}mk({H}mk({H}base, 1), 2)\n",
     "lambda {e}: {H}cl({e}) - {H}cl({e}.o_p)", "lambda {e}: (({e}.i_pt + 1) + 2) - (({e}.o_p.i_pt + 1) + 2)"),
    # comprehension in the helper
    ("def {H}lc({a}):\n    return [{j}.i_pt for {j} in {a}.so_jets if {j}.b_ok]\n", "lambda {e}: len({H}lc({e}))"),
    # comprehension whose loop variable may have the name of something in the argument, or of a parameter
    ("def {H}nab({a}, {b}):\n    return len([{j} for {j} in {a} if {j}.i_pt > {b}])\n", "lambda {e}: {H}nab({e}.so_jets, {e}.i_pt)"),
    ("def {H}nab({a}, {b}):\n    return len([{j}.i_pt + {b}.i_eta for {j} in {a}.so_jets])\n", "lambda {e}: {H}nab({e}.o_p, {e})"),
    ("def {H}lcp({a}):\n    return len([{a}.i_pt for {a} in {a}.so_jets if {a}.b_ok])\n", "lambda {e}: {H}lcp({e})"),
    ("def {H}gen({a}, {b}):\n    return len([{j}.i_pt for {j} in {a} if {j}.i_pt > {b} if {j}.i_eta < {b}])\n", "lambda {j}: {H}gen({j}.so_jets, {j}.i_eta)"),
    # the helper's own free names: module constants, further helpers, values of the scope it was made in
    ("{H}K = 3\n\n\ndef {H}sc({a}):\n    return {a} * {H}K\n", "lambda {e}: {H}sc({e}.i_pt)"),
    # ... spelled like a parameter of the lambda at the call site (or of a lambda around it)
    ("{b} = 7\n\n\ndef {H}sc({a}):\n    return {a} * {b} + 1000\n", "lambda {e}: {H}sc({e}.i_pt)"),
    ("{b} = 7\n\n\ndef {H}sc({a}):\n    return {a}.i_pt * {b}\n", "lambda {e}: {e}.so_jets.Select(lambda {j}: {H}sc({j})).Count() + {H}sc({e})"),
    ("{b} = 5\n\n\ndef {H}in({a}):\n    return {a} + {b}\n\n\ndef {H}out({j}):\n    return {H}in({j}.i_pt) * 2\n", "lambda {e}: {H}out({e})"),
    ("{H}K = 3\n\n\ndef {H}sc({a}, {b}):\n    return {a}.so_jets.Where(lambda {j}: {j}.i_pt > {H}K + {b}).Count()\n", "lambda {e}: {H}sc({e}, {e}.i_eta)"),
    ("{H}K = 4\n\n\ndef {H}in({a}):\n    return {a} + {H}K\n\n\ndef {H}out({b}):\n    return {H}in({b}.i_pt) * {H}K\n", "lambda {e}: {H}out({e})"),
    ("def {H}mk(k_):\n    def {H}inner({a}):\n        return {a}.i_pt - k_\n    return {H}inner\n\n\n{H}cl = {H}mk(6)\n", "lambda {e}: {H}cl({e}) + {H}cl({e}.o_p)",
     "lambda {e}: ({e}.i_pt - 6) + ({e}.o_p.i_pt - 6)"),
    ("def {H}mk(k_):\n    def {H}inner({a}):\n        return {a}.so_jets.Where(lambda {j}: {j}.i_pt > k_).Count()\n    return {H}inner\n\n\n{H}cl = {H}mk(2)\n", "lambda {e}: {H}cl({e})",
     "lambda {e}: {e}.so_jets.Where(lambda {j}: {j}.i_pt > 2).Count()"),
]

# helpers that cannot be inlined (more than one statement): must stay calls by name
NOT_INLINABLE = [
    ("def {H}two({a}):\n    {b} = {a}\n    return {b}\n", "lambda {e}: {H}two({e}.i_pt) + {e}.i_eta", {"two": "i"}),
]


def family_cases(pool=("x", "y"), limit=None):
    "-> list of case dicts; every assignment of pool names to {a} {b} {e} {j} that yields valid Python"
    out = []
    k = 0
    for fam in FAMILIES:
        helpers_t, lam_t = fam[0], fam[1]
        truth_t = fam[2] if len(fam) > 2 else None
        ph = [p for p in ("a", "b", "e", "j") if "{%s}" % p in helpers_t or "{%s}" % p in lam_t]
        seen = set()
        for names in itertools.product(pool, repeat=len(ph)):
            m = dict(zip(ph, names))
            H = "h%d_" % k
            try:
                hs = helpers_t.format(H=H, **m)
                lm = lam_t.format(H=H, **m)
                tree = ast.parse(hs)
                compile(hs, "<helpers>", "exec")
                compile(lm, "<lambda>", "eval")
            except (SyntaxError, KeyError, IndexError):
                continue
            key = (hs.replace(H, ""), lm.replace(H, ""))
            if key in seen:
                continue
            seen.add(key)
            names_def = [n.name for n in tree.body if isinstance(n, ast.FunctionDef)] + [n.targets[0].id for n in tree.body if isinstance(n, ast.Assign)]
            out.append(dict(helpers=hs, lam=lm, names=names_def))
            if truth_t:
                out[-1]["truth"] = truth_t.format(H=H, **m)
            k += 1
    for helpers_t, lam_t, opaque in NOT_INLINABLE:
        for names in itertools.product(pool, repeat=3):
            m = dict(zip(("a", "b", "e"), names))
            if m["a"] == m["b"]:
                continue
            H = "h%d_" % k
            hs, lm = helpers_t.format(H=H, **m), lam_t.format(H=H, **m)
            try:
                compile(hs, "<helpers>", "exec")
                compile(lm, "<lambda>", "eval")
            except SyntaxError:
                continue
            out.append(dict(helpers=hs, lam=lm, names=[H + n for n in opaque], opaque={H + n: t for n, t in opaque.items()}))
            k += 1
    return out[:limit] if limit else out


def grammar_cases(seed, count, depth=2, maxpicks=14, start=0):
    """helper(p: int, q: object) -> int with a grammar-generated body (method form), called from a grammar-generated call site with
    positional / keyword / re-ordered arguments; binder names maximally re-used on both sides"""
    rnd = random.Random(seed)
    out = []
    tries = 0
    while len(out) < count and tries < count * 30:
        tries += 1
        ch = gen.Chooser((), rnd=rnd, maxpicks=maxpicks)
        g = gen.G(ch, "meth", feats=["first", "tuple", "dict", "count", "ifexp", "bool", "calllam", "neg"])
        try:
            p, q = g.fresh(), g.fresh()
            body = g.expr(gen.I, [(p, gen.I), (q, gen.O)], depth)
            e = g.fresh()
            a1 = g.expr(gen.I, [(e, gen.O)], depth - 1)
            a2 = g.expr(gen.O, [(e, gen.O)], depth - 1)
            shape = ch.pick(4)
        except gen.Truncated:
            continue
        H = "g%d_h" % (start + len(out))
        helper_lam = gen.rename_binders(gen.lam([p, q], body), "reuse")
        pn, qn = [a.arg for a in helper_lam.args.args]
        if shape == 0:
            call = ast.Call(gen.N(H), [a1, a2], [])
        elif shape == 1:
            call = ast.Call(gen.N(H), [], [ast.keyword(qn, a2), ast.keyword(pn, a1)])
        elif shape == 2:
            call = ast.Call(gen.N(H), [a1], [ast.keyword(qn, a2)])
        else:
            call = ast.BinOp(ast.Call(gen.N(H), [a1, a2], []), ast.Sub(), ast.Call(gen.N(H), [ast.Constant(1), a2], []))
        site = gen.rename_binders(gen.lam(e, call), "reuse")
        hs = "def %s(%s, %s):\n    return %s\n" % (H, pn, qn, ast.unparse(helper_lam.body))
        out.append(dict(helpers=hs, lam=ast.unparse(site), names=[H]))
    return out
