"""Mechanism families: one template per anchor of the simplifier, instantiated under every binder naming from a small pool
that Python scoping allows (vlib.skel.gen.family_instances)."""

# placeholders: A = outer stage binder, B = second stage binder, P/Q = called-lambda parameters, C/D = nested binders
PAIRS = []
_BODY1 = {
    "Select": ["{A}.o_p", "({A}.i_pt, {A}.so_jets)", "{{'a': {A}.i_pt, 'b': {A}.so_jets}}", "{A}.so_jets", "[{A}.so_trk, {A}.i_eta]"],
    "Where": ["{A}.i_pt > 1", "Count(Where({A}.so_jets, lambda {C}: {C}.i_pt > {A}.i_eta)) > 0"],
    "SelectMany": ["{A}.so_jets", "Select({A}.so_jets, lambda {C}: ({C}, {A}.i_pt))"],
}


def _second(op1, b1, idx):
    """stage-2 lambdas consistent with the item type stage 1 produces"""
    if op1 == "Select":
        item = [("o", "{B}"), ("tup", "{B}"), ("rec", "{B}"), ("seq", "{B}"), ("tup2", "{B}")][idx]
    elif op1 == "Where":
        item = ("o", "{B}")
    else:
        item = [("o", "{B}"), ("tupo", "{B}")][idx]
    k = item[0]
    if k == "o":
        sel = ["{B}.i_pt + 1", "Count(Where({B}.so_jets, lambda {C}: {C}.i_pt > {B}.i_eta))", "Select({B}.so_jets, lambda {C}: {C}.i_pt + {B}.i_pt)"]
        whr = ["{B}.i_eta > 2", "First({B}.so_jets).i_pt > {B}.i_pt"]
        many = ["{B}.so_trk", "Where({B}.so_trk, lambda {C}: {C}.i_pt > {B}.i_pt)"]
    elif k == "tup":
        sel = ["{B}[0] + Count({B}[1])", "Select({B}[1], lambda {C}: {C}.i_pt + {B}[0])"]
        whr = ["{B}[0] > 2", "Count(Where({B}[1], lambda {C}: {C}.i_pt > {B}[0])) > 1"]
        many = ["{B}[1]", "Select({B}[1], lambda {C}: {C}.i_pt - {B}[0])"]
    elif k == "rec":
        sel = ["{B}.a + Count({B}['b'])", "Select({B}.b, lambda {C}: {C}.i_pt + {B}['a'])"]
        whr = ["{B}['a'] > 2"]
        many = ["{B}.b"]
    elif k == "seq":
        sel = ["Count({B})", "Select({B}, lambda {C}: {C}.i_pt + Count({B}))", "First({B}).i_pt"]
        whr = ["Count({B}) > 1", "Count(Where({B}, lambda {C}: {C}.i_pt > Count({B}))) > 0"]
        many = ["{B}", "Where({B}, lambda {C}: {C}.i_pt > 1)"]
    elif k == "tup2":
        sel = ["Count({B}[0]) + {B}[1]"]
        whr = ["{B}[1] > 0"]
        many = ["{B}[0]"]
    else:  # tupo: (object, int)
        sel = ["{B}[0].i_pt + {B}[1]"]
        whr = ["{B}[0].i_pt > {B}[1]"]
        many = ["{B}[0].so_trk"]
    return {"Select": sel, "Where": whr, "SelectMany": many}


for op1, bodies in _BODY1.items():
    for i, b1 in enumerate(bodies):
        seconds = _second(op1, b1, i)
        for op2, b2s in seconds.items():
            for b2 in b2s:
                PAIRS.append("%s(%s(ds, lambda {A}: %s), lambda {B}: %s)" % (op2, op1, b1, b2))

CALLED = [
    # body with a nested lambda mentioning the parameter / an outer variable; argument mentioning an outer or to-be-shadowed variable
    "Select(ds, lambda {A}: (lambda {P}: Count(Select({A}.so_jets, lambda {C}: {C}.i_pt + {P})))({A}.i_eta))",
    "Select(ds, lambda {A}: (lambda {P}: Count(Where({A}.so_jets, lambda {C}: {C}.i_pt > {P}.i_pt)))(First({A}.so_trk)))",
    "Select(ds, lambda {A}: (lambda {P}: (lambda {C}: {C}.i_pt + {P}))({A}.i_eta)({A}.o_p))",
    "Select(ds, lambda {A}: (lambda {P}, {Q}: {P} - {Q})({A}.i_pt, {A}.i_eta))",
    "Select(ds, lambda {A}: (lambda {P}, {Q}: {P} - {Q})({Q}={A}.i_pt, {P}={A}.i_eta))",
    "Select(ds, lambda {A}: (lambda {P}, {Q}: {P} - {Q}.i_pt)({A}.i_pt, {Q}={A}.o_p))",
    "Select(ds, lambda {A}: (lambda {P}: Select({A}.so_jets, lambda {C}: {C}.i_pt + {P}))({A}.i_eta))",
    "Select(ds, lambda {A}: Select({A}.so_jets, lambda {C}: (lambda {P}: {P}.i_pt + {C}.i_pt)({A}.o_p)))",
    "Select(ds, lambda {A}: Select({A}.so_jets, lambda {C}: (lambda {P}: {P} + {C}.i_pt)({A}.i_eta + {C}.i_eta)))",
    "Where(ds, lambda {A}: (lambda {P}: {P} > {A}.i_eta)({A}.i_pt))",
    "Select(ds, lambda {A}: (lambda {P}: (lambda {Q}: {Q} + {P})({P} + 1))({A}.i_pt))",
    "Select(ds, lambda {A}: (lambda {P}: (lambda {P}: {P} + 1)({P}) + {P})({A}.i_pt))",
    "SelectMany(ds, lambda {A}: (lambda {P}: Where({P}, lambda {C}: {C}.i_pt > {A}.i_pt))({A}.so_jets))",
    "Select(ds, lambda {A}: (lambda {P}: ({P}, {A}.i_eta))({A}.i_pt)[0])",
    "Select(Select(ds, lambda {A}: {A}.so_jets), lambda {B}: (lambda {P}: Count(Where({B}, lambda {C}: {C}.i_pt > {P})))(Count({B})))",
    # the argument mentions the parameter's own name, and the body is fused (parts of the result are visited twice)
    "Select(ds, lambda {A}: (lambda {P}: Where(Select({P}, lambda {C}: {C}.i_pt + 1), lambda {Q}: {Q} > 2))({A}.so_jets))",
    "Select(ds, lambda {A}: (lambda {P}: Where(Where({P}, lambda {C}: {C}.i_pt > 1), lambda {Q}: {Q}.i_eta > 2))({A}.so_jets))",
    "Select(ds, lambda {A}: (lambda {P}: Select(SelectMany({P}, lambda {C}: {C}.so_trk), lambda {Q}: {Q}.i_pt))({A}.so_jets))",
    "Select(ds, lambda {A}: (lambda {P}: Select(Select({P}, lambda {C}: ({C}.i_pt, {C})), lambda {Q}: {Q}[1].i_eta + {Q}[0]))({A}.so_jets))",
    "Select(ds, lambda {A}: (lambda {P}, {Q}: Count(Where(Select({P}, lambda {C}: {C}.i_pt), lambda {C}: {C} > {Q})))({A}.so_jets, {A}.i_pt))",
    "Select(ds, lambda {A}: (lambda {P}: First(Select({P}.so_jets, lambda {C}: ({C}.i_pt, {P}.i_eta)))[1] + {P}.i_pt)({A}.o_p))",
    "Where(ds, lambda {A}: (lambda {P}: Count(Where(Select({P}, lambda {C}: {C}.i_pt), lambda {Q}: {Q} > 1)) > 0)({A}.so_jets))",
    # the argument mentions the outer variable and is used under an inner lambda that may re-use that variable's name, inside a chain
    # that gets fused (the rules visit what they build a second time, while the substitution is still pending)
    "Select(ds, lambda {A}: (lambda {P}: Select({A}.so_trk, lambda {B}: Count(Where(Where({P}, lambda {C}: {C}.i_pt > {B}.i_pt), lambda {Q}: {Q}.i_eta < 10))))({A}.so_jets))",
    "Select(ds, lambda {A}: (lambda {P}: Select({A}.so_trk, lambda {B}: Count(Select(Select({B}.so_jets, lambda {C}: {C}.i_pt + {P}.i_pt), lambda {Q}: {Q} * 2))))({A}.o_p))",
    "Select(ds, lambda {A}: (lambda {P}: Select({A}.so_trk, lambda {B}: Count(Where(Select({B}.so_jets, lambda {C}: {C}.i_pt + {P}), lambda {Q}: {Q} > 2))))({A}.i_eta))",
    "Select(ds, lambda {A}: (lambda {P}: Select({A}.so_trk, lambda {B}: Count(Select(SelectMany({B}.so_jets, lambda {C}: {C}.so_trk), lambda {Q}: {Q}.i_pt + {P}))))({A}.i_eta))",
    "Select(ds, lambda {A}: (lambda {P}: Select({A}.so_trk, lambda {B}: First({P})[0] + {B}.i_pt))(Select({A}.so_jets, lambda {C}: ({C}.i_pt, {A}.i_eta))))",
    "Select(ds, lambda {A}: (lambda {P}: SelectMany({A}.so_trk, lambda {B}: Where(SelectMany({B}.so_jets, lambda {C}: {C}.so_trk), lambda {Q}: {Q}.i_pt > {P})))({A}.i_eta))",
    # parameters with default values (the default belongs to the scope the lambda is written in)
    "Select(ds, lambda {A}: (lambda {P}, {Q}=3: {P} + {Q})({A}.i_pt))",
    "Select(ds, lambda {A}: (lambda {P}, {Q}={A}.i_eta: {P} - {Q})({A}.i_pt))",
    "Select(ds, lambda {A}: (lambda {P}, {Q}=1: {P} - {Q})({A}.i_pt, {A}.i_eta))",
    "Select(ds, lambda {A}: (lambda {P}=5, {Q}=1: {P} - {Q})({Q}={A}.i_pt))",
    "Select(ds, lambda {A}: Select({A}.so_jets, lambda {C}: (lambda {P}, {Q}={A}.i_pt: {P}.i_pt + {Q})({C})))",
    # default values on lambdas that are handed to an operator (not called on the spot): the default is evaluated where the lambda is written
    "Select(ds, lambda {A}: (lambda {P}: Count(Select({A}.so_jets, lambda {C}, {Q}={P}: {C}.i_pt + {Q})))({A}.i_eta))",
    "Select(ds, lambda {A}: Select({A}.so_jets, lambda {C}, {Q}={A}.i_pt: {C}.i_pt + {Q}))",
    "Select(Select(ds, lambda {A}: {A}.o_p), lambda {B}: Count(Where({B}.so_jets, lambda {C}, {Q}={B}.i_pt: {C}.i_pt > {Q})))",
    "Select(ds, lambda {A}: (lambda {P}: Select({A}.so_jets, lambda {C}, {Q}={P} + 1: (lambda {P}: {P} + {Q})({C}.i_pt)))({A}.i_eta))",
    # the argument is a bare variable; the called lambda's body has a nested lambda that may re-use that variable's name
    "Select(ds, lambda {A}: Select({A}.so_jets, lambda {B}: (lambda {P}: Count(Where({A}.so_jets, lambda {C}: {C}.i_pt > {P}.i_pt)))({B})))",
    "Select(ds, lambda {A}: (lambda {P}: Select({P}.so_jets, lambda {C}: {C}.i_pt + {P}.i_eta))({A}))",
    "Select(ds, lambda {A}: Select({A}.so_jets, lambda {B}: (lambda {P}, {Q}: Select({Q}.so_trk, lambda {C}: {C}.i_pt - {P}.i_eta))({B}, {A})))",
    # call shapes python binds in other ways than name by name: *args / **kwargs / positional-only / keyword-only parameters, starred arguments
    "Select(ds, lambda {A}: (lambda {P}, *{Q}: {P} + len({Q}) + {Q}[0])({A}.i_pt, {A}.i_eta, 3))",
    "Select(ds, lambda {A}: (lambda {P}, /, {Q}: {P} - {Q})(*({A}.i_pt, {A}.i_eta)))",
    "Select(ds, lambda {A}: (lambda {P}, *, {Q}=2: {P} - {Q})({A}.i_pt) + (lambda {P}, *, {Q}: {P} - {Q})({A}.i_pt, {Q}={A}.i_eta))",
    "Select(ds, lambda {A}: (lambda {P}, **{Q}: {P} + {Q}['k'])({A}.i_pt, k={A}.i_eta))",
    "Select(ds, lambda {A}: (lambda {P}, /: Select({A}.so_jets, lambda {C}, /: {C}.i_pt + {P}))({A}.i_eta))",
    "Select(ds, lambda {A}: (lambda {P}: Select({A}.so_jets, lambda *{P}: {P}[0].i_pt))({A}.i_eta))",
    "Select(ds, lambda {A}: (lambda {P}: Select({A}.so_jets, lambda {C}, *, {P}=1: {C}.i_pt + {P}))({A}.i_eta))",
    # operators whose lambda takes its argument in another way than by one plain positional parameter, or whose source is starred
    "SelectMany(SelectMany(ds, lambda *{A}: {A}[0].so_jets), lambda {B}: {B}.so_trk)",
    "Select(Select(ds, lambda {A}, /: {A}.o_p), lambda {B}: {B}.i_pt)",
    "Where(Select(ds, lambda *{A}: {A}[0].i_pt), lambda {B}: {B} > 1)",
    "Select(Where(ds, lambda {A}, {B}=2: {A}.i_pt > {B}), lambda {A}: {A}.i_eta)",
    "Select(ds, lambda {A}: Count(Select(*({A}.so_jets,), lambda {B}: {B})) + Count(Where(*({A}.so_jets,), lambda {B}: True)))",
    # operators that get their lambda by keyword
    "Where(ds, filter=lambda {A}: {A}.i_pt > 1)",
    "Select(Select(ds, f=lambda {A}: {A}.o_p), lambda {B}: {B}.i_pt)",
    "Select(ds, lambda {A}: Count(Where(Select({A}.so_jets, f=lambda {C}: {C}.i_pt), filter=lambda {B}: {B} > {A}.i_eta)))",
    "SelectMany(Select(ds, lambda {A}: {A}.so_jets), func=lambda {B}: Select({B}, lambda {C}: {C}.i_pt))",
    # lambdas without parameters
    "Select(Select(ds, lambda {A}: First({A}.so_jets)), lambda {B}: (lambda: 1000)() + {B}.i_pt)",
    "Select(Select(ds, lambda {A}: {A}.o_p), lambda {B}: Count(Select({B}.so_jets, lambda {C}: (lambda: {B}.i_eta)() + {C}.i_pt + {B}.i_pt)))",
    "Where(Select(ds, lambda {A}: {A}.o_p), lambda {B}: (lambda: 2)() < {B}.i_pt)",
    "Select(ds, lambda {A}: (lambda {P}, {Q}: ((lambda: 2)() * {P}, {Q}))({A}.i_pt, Count({A}.so_jets)))",
    "Select(ds, lambda {A}: Select({A}.so_jets, lambda {C}: (lambda {P}: (lambda: {A}.i_eta)() + {P}.i_pt + {C}.i_eta)({C})))",
]

FIRST = [
    "Select(ds, lambda {A}: First({A}.so_jets).i_pt)",
    "Select(ds, lambda {A}: First({A}.so_jets).mi_pt(2))",
    "Select(ds, lambda {A}: First({A}.so_jets).mi_e(1, k={A}.i_pt))",
    "Select(ds, lambda {A}: First(Select({A}.so_jets, lambda {C}: ({C}.i_pt, {C}.i_eta)))[0])",
    "Select(ds, lambda {A}: First(Select({A}.so_jets, lambda {C}: {{'p': {C}.i_pt, 'q': {A}.i_eta}})).q)",
    "Select(ds, lambda {A}: First(Select({A}.so_jets, lambda {C}: {{'p': {C}.i_pt, 'q': {A}.i_eta}}))['p'])",
    "Select(ds, lambda {A}: First(Where({A}.so_jets, lambda {C}: {C}.i_pt > {A}.i_pt)).o_p.i_eta)",
    "Select(ds, lambda {A}: First(First(Select({A}.so_jets, lambda {C}: {C}.so_trk))).i_pt)",
    "Select(ds, lambda {A}: First(Select({A}.so_jets, lambda {C}: First({C}.so_trk))).i_pt + {A}.i_pt)",
    "Select(ds, lambda {A}: First({A}.so_jets).so_trk)",
    "Where(ds, lambda {A}: First(Select({A}.so_jets, lambda {C}: ({C}.i_pt, {A}.i_eta)))[1] > 2)",
    "Select(Select(ds, lambda {A}: ({A}.so_jets, {A}.i_pt)), lambda {B}: First({B}[0]).i_pt + {B}[1])",
    # a method call WITH arguments on First(...), inside an inner lambda that may re-use a live outer name, the argument arriving through a called lambda
    "Select(ds, lambda {A}: (lambda {P}: Select({A}.so_jets, lambda {C}: First({C}.so_trk).mi_pt({P})))({A}.i_eta))",
    "Select(ds, lambda {A}: (lambda {P}: Select({A}.so_jets, lambda {C}: First({C}.so_trk).mi_e(2, k={P})))({A}.i_eta))",
    "Select(ds, lambda {A}: (lambda {P}: Select({A}.so_jets, lambda {C}: First({C}.so_trk).mi_e(k=3, q={P}.i_pt)))({A}))",
    "Select(ds, lambda {A}: (lambda {P}: Select({A}.so_jets, lambda {C}: First(Where({C}.so_trk, lambda {B}: {B}.i_pt > 0)).mi_pt({P} + 1)))({A}.i_eta))",
    "Select(ds, lambda {A}: (lambda {P}: Select({A}.so_jets, lambda {C}: First(Select({C}.so_trk, lambda {B}: ({B}.i_pt, {P})))[1]))({A}.i_eta))",
]

LITERAL = [
    "Select(ds, lambda {A}: ({A}.i_pt, {A}.i_eta)[1])",
    "Select(ds, lambda {A}: ({A}.i_pt, {A}.i_eta)[-1])",
    "Select(ds, lambda {A}: [{A}.i_pt, {A}.i_eta][0])",
    "Select(ds, lambda {A}: {{'a': {A}.i_pt, 'b': {A}.i_eta}}['b'])",
    "Select(ds, lambda {A}: {{'a': {A}.i_pt, 'b': {A}.i_eta}}.a)",
    "Select(ds, lambda {A}: (({A}.i_pt, {A}.o_p), {A}.i_eta)[0][1].i_pt)",
    # starred elements in a tuple / list display that is indexed
    "Select(ds, lambda {A}: (*({A}.i_pt, 1), {A}.i_eta)[2] + (*({A}.i_pt, 1), {A}.i_eta)[0])",
    "Select(Select(ds, lambda {A}: ({A}.i_pt, {A}.i_eta)), lambda {B}: [*{B}, 5][1] + [5, *{B}][1])",
    # a dictionary display that repeats a key: Python keeps the last value
    "Select(ds, lambda {A}: {{'a': {A}.i_pt, 'a': {A}.i_eta}}['a'])",
    "Select(ds, lambda {A}: {{'a': {A}.i_pt, 'b': 1, 'a': {A}.i_eta}}.a)",
    "Select(Select(ds, lambda {A}: {{'k': {A}.i_pt, 'k': {A}.o_p}}), lambda {B}: {B}.k.i_eta)",
    "Select(ds, lambda {A}: {{1: {A}.i_pt, True: {A}.i_eta}}[1])",
    "Select(ds, lambda {A}: {{0: {A}.i_pt, 1: {A}.i_eta}}[True] + {{0: {A}.i_pt, 1: {A}.i_eta}}[0])",
    "Select(Select(ds, lambda {A}: ({A}, {A}.so_jets)), lambda {B}: Select({B}[1], lambda {A}: {A}.i_pt + {B}[0].i_pt))",
    "Select(Select(ds, lambda {A}: {{'e': {A}, 'j': {A}.so_jets}}), lambda {B}: Select({B}.j, lambda {C}: {C}.i_pt + {B}.e.i_pt))",
    "Select(Where(Select(ds, lambda {A}: ({A}.i_pt, {A}.so_jets)), lambda {B}: {B}[0] > 1), lambda {C}: Count({C}[1]) + {C}[0])",
    "SelectMany(Select(ds, lambda {A}: ({A}.so_jets, {A}.i_pt)), lambda {B}: Select({B}[0], lambda {C}: ({C}.i_pt, {B}[1])))",
    "Select(Select(Select(ds, lambda {A}: ({A}.i_pt, {A})), lambda {B}: ({B}[1].i_eta, {B}[0])), lambda {C}: {C}[0] - {C}[1])",
    "Where(Where(ds, lambda {A}: {A}.i_pt > 1), lambda {B}: True)",
    "Where(Where(Where(ds, lambda {A}: {A}.i_pt > 1), lambda {B}: {B}.i_eta < 2), lambda {C}: Count({C}.so_jets) > 0)",
    "Select(Select(ds, lambda {A}: {A}), lambda {B}: {B}.i_pt)",
    "Select(Select(ds, lambda {A}: {A}.o_p), lambda {B}: {B})",
    # compositions that come out as the identity lambda
    "SelectMany(Select(ds, lambda {A}: ({A}.so_jets, {A}.i_pt)), lambda {B}: {B}[0])",
    "SelectMany(Select(Select(ds, lambda {A}: {A}.so_jets), lambda {B}: ({B}, Count({B}))), lambda {C}: {C}[0])",
    "SelectMany(Select(Select(ds, lambda {A}: {A}.so_jets), lambda {B}: {{'s': {B}}}), lambda {C}: {C}.s)",
    "Select(Select(Select(ds, lambda {A}: {A}.so_jets), lambda {B}: [{B}]), lambda {C}: {C}[0])",
    "Where(Select(Select(ds, lambda {A}: {A}.i_pt), lambda {B}: ({B}, 1)), lambda {C}: {C}[0] > 1)",
    "Select(ds, lambda {A}: Count(SelectMany(Select({A}.ss_rows, lambda {B}: ({B}, {A}.i_pt)), lambda {C}: {C}[0])))",
    "SelectMany(ds, lambda {A}: SelectMany(Select({A}.ss_rows, lambda {B}: ({B}, 1)), lambda {C}: {C}[0]))",
    "Select(ds, lambda {A}: Count(SelectMany(Select({A}.ss_rows, lambda {B}: {{'v': {B}}}), lambda {C}: {C}.v)))",
    "Select(ds, lambda {A}: Select(SelectMany(Select({A}.ss_rows, lambda {B}: [{B}]), lambda {C}: {C}[0]), lambda {B}: {B}.i_pt))",
    "Select(ds, lambda {A}: Count(Where(SelectMany(Select({A}.ss_rows, lambda {B}: (1, {B})), lambda {C}: (lambda {P}: {P})({C}[1])), lambda {B}: {B}.i_pt > 2)))",
    "Select(ds, lambda {A}: Count(Select(Select({A}.ss_rows, lambda {B}: {B}), lambda {C}: Count({C}))))",
]

DEEP = [
    # a fusion nested inside an outer lambda leaves a substituted value that mentions the outer variable; an intermediate lambda level
    # follows; the innermost lambda may re-use the outer variable's name
    "Select(ds, lambda {A}: Select(Select({A}.so_jets, lambda {B}: ({B}, {A}.i_pt)), lambda {C}: Select({C}[0].so_trk, lambda {P}: Count(Where({P}.so_jets, lambda {Q}: {Q}.i_pt > {C}[1])))))",
    "Select(ds, lambda {A}: Select(Select({A}.so_jets, lambda {B}: ({B}, {A}.i_pt)), lambda {C}: Select({C}[0].so_trk, lambda {P}: Select({P}.si_hits, lambda {Q}: {Q} + {C}[1]))))",
    "Select(ds, lambda {A}: Where(Select({A}.so_jets, lambda {B}: {{'j': {B}, 'm': {A}.i_eta}}), lambda {C}: Count(Where({C}.j.so_trk, lambda {P}: Count(Where({P}.si_hits, lambda {Q}: {Q} > {C}['m'])) > 0)) > 0))",
    "Select(ds, lambda {A}: (lambda {C}: Select({C}[0], lambda {P}: Select({P}.so_trk, lambda {Q}: {Q}.i_pt + {C}[1])))(({A}.so_jets, {A}.i_pt)))",
    "SelectMany(ds, lambda {A}: SelectMany(Select({A}.so_jets, lambda {B}: ({B}.so_trk, {A}.i_pt)), lambda {C}: Select({C}[0], lambda {P}: Count(Where({P}.si_hits, lambda {Q}: {Q} > {C}[1])))))",
    "Select(ds, lambda {A}: First(Select(Select({A}.so_jets, lambda {B}: ({B}, {A}.o_p)), lambda {C}: Select({C}[0].so_trk, lambda {P}: First(Select({P}.so_jets, lambda {Q}: {Q}.i_pt + {C}[1].i_pt))))))",
]

THREE = [
    "Select(Where(SelectMany(ds, lambda {A}: {A}.so_jets), lambda {B}: {B}.i_pt > 1), lambda {C}: {C}.i_eta)",
    "Where(Select(SelectMany(ds, lambda {A}: {A}.so_jets), lambda {B}: ({B}.i_pt, {B}.o_p)), lambda {C}: {C}[0] > 5)",
    "SelectMany(Where(Select(ds, lambda {A}: {A}.so_jets), lambda {B}: Count({B}) > 1), lambda {C}: {C})",
    "Select(SelectMany(SelectMany(ds, lambda {A}: {A}.so_jets), lambda {B}: {B}.so_trk), lambda {C}: {C}.i_pt)",
    "Where(Where(Select(ds, lambda {A}: {A}.i_pt), lambda {B}: {B} > 1), lambda {C}: {C} < 5)",
    "Select(Select(Where(ds, lambda {A}: {A}.b_ok), lambda {B}: {B}.so_jets), lambda {C}: Count(Where({C}, lambda {A}: {A}.i_pt > 2)))",
    "SelectMany(Select(Where(ds, lambda {A}: {A}.i_pt > 0), lambda {B}: {B}.so_jets), lambda {C}: Where({C}, lambda {B}: {B}.i_pt > Count({C})))",
]

ALL = {"pairs": PAIRS, "called": CALLED, "first": FIRST, "literal": LITERAL, "three": THREE, "deep": DEEP}
PLACEHOLDERS = ["A", "B", "C", "P", "Q"]


def instantiate(templates, pool=("x", "y")):
    "every legal naming of every template -> list of sources (de-duplicated, order kept)"
    from vlib.skel import gen
    seen, out = set(), []
    for t in templates:
        ph = [p for p in PLACEHOLDERS + ["D"] if "{%s}" % p in t]
        for src, _ in gen.family_instances(t, ph, pool):
            if src not in seen:
                seen.add(src)
                out.append(src)
    return out


def instances(pool=("x", "y")):
    "-> list of (family, source)"
    from vlib.skel import gen
    out = []
    for fam, templates in ALL.items():
        for t in templates:
            ph = [p for p in PLACEHOLDERS if "{%s}" % p in t]
            for src, _ in gen.family_instances(t, ph, pool):
                out.append((fam, src))
    # de-duplicate
    seen = set()
    res = []
    for fam, src in out:
        if src not in seen:
            seen.add(src)
            res.append((fam, src))
    return res
