"""Source layouts for C03: where a lambda sits in a file when it is passed to Select / Where / SelectMany.

Every case is a function `case_<k>(ds)` in a generated module.  `lams` lists, in call order, the source of each callable the case
passes to a stream operator; `documented` says whether the layout is one the library documents as supported (then recovery must
succeed), otherwise the outcome may also be an exception - but never a different lambda."""
import itertools
import random
import textwrap

# distinct opaque bodies: a neighbouring lambda is always semantically different from the intended one
BODIES = ["{v}.i_a%d + %d" % (i, i) for i in range(40)]


def body(i, v):
    return BODIES[i % len(BODIES)].format(v=v)


def cases(seed=0, thorough=False):
    rnd = random.Random(seed)
    out = []
    n = [0]

    def nb():
        n[0] += 1
        return n[0]

    def add(code, lams, documented, kind):
        out.append(dict(code=textwrap.dedent(code).strip("\n"), lams=lams, documented=documented, kind=kind))

    indents = ["", "    ", "        "] + (["            "] if thorough else [])
    prefixes = ["", "r = ", "zz = 1; r = ", "r = [1, (2, 3)]; q = "]
    # ---- D1: one lambda per call, one call per line
    for pre in prefixes:
        for v in ("e", "x"):
            a, b = nb(), nb()
            add("""
                s0 = ds.Select(lambda {v}: {A})
                {pre}s0.Where(lambda {v}: {B} > 1)
                """.format(v=v, pre=pre, A=body(a, v), B=body(b, v)),
                ["lambda {v}: {A}".format(v=v, A=body(a, v)), "lambda {v}: {B} > 1".format(v=v, B=body(b, v))], True, "D1 one call per line")
    # ---- D2: several calls on one line, told apart by the method name
    for ops in (("Select", "Where"), ("Where", "Select"), ("SelectMany", "Where"), ("Select", "Where", "SelectMany")):
        ids = [nb() for _ in ops]
        call = "ds" + "".join(".%s(lambda e: %s)" % (op, _arg(op, body(i, "e"))) for op, i in zip(ops, ids))
        add("r = " + call, ["lambda e: %s" % _arg(op, body(i, "e")) for op, i in zip(ops, ids)], True, "D2 same line, different methods")
    # ---- D3: same method on one line, told apart by argument names
    for names in (("x", "y"), ("e", "j"), ("a", "b", "c")):
        ids = [nb() for _ in names]
        call = "ds" + "".join(".Select(lambda %s: %s)" % (v, body(i, v)) for v, i in zip(names, ids))
        add("r = " + call, ["lambda %s: %s" % (v, body(i, v)) for v, i in zip(names, ids)], True, "D3 same line, different argument names")
    # ---- D4: black-style wrapped chains (same method, same argument name, different lines)
    for nops in (2, 3, 4):
        ids = [nb() for _ in range(nops)]
        ops = [["Select", "Where", "Select", "Select"][k] for k in range(nops)]
        lines = "\n".join("                    .%s(lambda e: %s)" % (op, _arg(op, body(i, "e"))) for op, i in zip(ops, ids))
        add("""
                r = (
                    ds
%s
                )
                """ % lines, ["lambda e: %s" % _arg(op, body(i, "e")) for op, i in zip(ops, ids)], True, "D4 black-style wrapped chain")
    # ---- D5: multi-line bodies
    a, b = nb(), nb()
    add("""
        r = ds.Select(
            lambda e: (
                {A},
                {B},
            )
        )
        """.format(A=body(a, "e"), B=body(b, "e")), ["lambda e: ({A}, {B})".format(A=body(a, "e"), B=body(b, "e"))], True, "D5 multi-line body")
    a, b = nb(), nb()
    add("""
        r = ds.Where(lambda e: {A}
                     > {B})
        """.format(A=body(a, "e"), B=body(b, "e")), ["lambda e: {A} > {B}".format(A=body(a, "e"), B=body(b, "e"))], True, "D5 multi-line body")
    a, b = nb(), nb()
    add("""
        r = ds.Select(lambda e: e.f(
            {A},
            k={B})).Where(lambda j: j > 1)
        """.format(A=body(a, "e"), B=body(b, "e")), ["lambda e: e.f({A}, k={B})".format(A=body(a, "e"), B=body(b, "e")), "lambda j: j > 1"], True, "D5 multi-line body")
    # ---- D6: comments and strings containing brackets or the word lambda
    for junk in ['"lambda x: (x]"', "'), lambda q: q'", '"#" ', '")"']:
        a = nb()
        add("""
            r = ds.Select(lambda e: e.f({J}) + {A})  # lambda z: z) (here
            """.format(J=junk, A=body(a, "e")), ["lambda e: e.f({J}) + {A}".format(J=junk, A=body(a, "e"))], True, "D6 strings and comments with code-like content")
    a = nb()
    add("""
        # ds.Select(lambda e: e.nothing)
        r = ds.Select(  # lambda w: w
            lambda e: {A}  # ) lambda
        )
        """.format(A=body(a, "e")), ["lambda e: {A}".format(A=body(a, "e"))], True, "D6 strings and comments with code-like content")
    # ---- a call whose lambda sits on the line, the next call opened at the end of that line with its lambda on the following line
    a, b = nb(), nb()
    add("r = ds.SelectMany(lambda e: %s).Select(\n    lambda e: %s\n)" % (_arg("SelectMany", body(a, "e")), body(b, "e")),
        ["lambda e: %s" % _arg("SelectMany", body(a, "e")), "lambda e: %s" % body(b, "e")], True, "D8 lambda on the line, next call opened at the line end (different methods)")
    a, b, c, d = nb(), nb(), nb(), nb()
    add("r = ds.Where(lambda e: %s > 2).Select(lambda e: %s).Select(\n    lambda j: %s\n).Where(lambda p: %s > 3)" % (body(a, "e"), body(b, "e"), body(c, "j"), body(d, "p")),
        ["lambda e: %s > 2" % body(a, "e"), "lambda e: %s" % body(b, "e"), "lambda j: %s" % body(c, "j"), "lambda p: %s > 3" % body(d, "p")], True,
        "D8 three calls on the line, the third opened at the line end (told apart by method and argument names)")
    a, b = nb(), nb()
    add("r = ds.Select(lambda x: %s).Select(\n    lambda y: %s\n)" % (body(a, "x"), body(b, "y")),
        ["lambda x: %s" % body(a, "x"), "lambda y: %s" % body(b, "y")], True, "D8 lambda on the line, next call opened at the line end (different argument names)")
    # ---- the same, but same method AND same argument name: may be refused, must never record the neighbour
    a, b = nb(), nb()
    add("r = ds.Select(lambda e: %s).Select(\n    lambda e: %s\n)" % (body(a, "e"), body(b, "e")),
        ["lambda e: %s" % body(a, "e"), "lambda e: %s" % body(b, "e")], False, "O12 same method and argument name, second call wrapped onto the next line")
    a, b = nb(), nb()
    add("r = ds.Select(lambda e: %s).Select(\n    lambda e: %s)" % (body(a, "e"), body(b, "e")),
        ["lambda e: %s" % body(a, "e"), "lambda e: %s" % body(b, "e")], False, "O12 same method and argument name, second call wrapped, closing bracket on the same line")
    a, b, c = nb(), nb(), nb()
    add("r = ds.Select(lambda e: %s).Where(lambda j: %s > 2).Select(\n    lambda e: %s\n)" % (body(a, "e"), body(b, "j"), body(c, "e")),
        ["lambda e: %s" % body(a, "e"), "lambda j: %s > 2" % body(b, "j"), "lambda e: %s" % body(c, "e")], False, "O12 same method and argument name, third call wrapped onto the next line")
    # ---- D1 with a body part of which the compiler folds away (no instruction is executed there)
    for bt in ("1 or {A}", "{A} if -True else {A} + 1", "({A}, 2)[0] if 0 else {A}"):
        a = nb()
        b_ = bt.format(A=body(a, "e"))
        add("r = ds.Select(lambda e: %s)\nq = 1" % b_, ["lambda e: %s" % b_], True, "D1 one lambda per call, part of the body is folded away by the compiler")
    # ---- D1 with short names elsewhere on the logical line (letters that occur in the word lambda)
    for tail_t in (".Select(m)", "; a = 1", " if d else None", ", b, l = 1, 2", ".Where(am)"):
        a = nb()
        pre = {".Select(m)": "m = 'lambda e: e.i_z'\n", ".Where(am)": "am = 'lambda e: e.i_z > 0'\n", " if d else None": "d = 1\n"}.get(tail_t, "")
        line = "r = ds.Select(lambda e: %s)%s" % (body(a, "e"), tail_t)
        if tail_t.startswith(", b"):
            line = "r, b, l = ds.Select(lambda e: %s), 1, 2" % body(a, "e")
        add(pre + line, ["lambda e: %s" % body(a, "e")], True, "D1 one lambda on the line, short names around it")
    # ---- one-line functions passed by name
    a = nb()
    add("""
        def good_{n}(e):
            return {A} > 1
        r = ds.Where(good_{n})
        """.format(n=a, A=body(a, "e")), ["lambda e: {A} > 1".format(A=body(a, "e"))], True, "D7 one-line def passed by name")
    a = nb()
    add("""
        def sel_{n}(j):
            'doc string with lambda x: (x'
            return {A}
        r = ds.Select(sel_{n}).Select(lambda j: j + 1)
        """.format(n=a, A=body(a, "j")), ["lambda j: {A}".format(A=body(a, "j")), "lambda j: j + 1"], True, "D7 one-line def passed by name")
    # a one-statement def at an indented level whose return expression holds a multi-line string (its continuation lines start at column 0 / 2)
    for cont in ("2018-B", "  2018-B"):
        a = nb()
        add("def mk_%d():\n    def tag_%d(e):\n        return e.mi_tag(\"\"\"run\n%s\"\"\") + %s\n    return tag_%d\nr = ds.Select(mk_%d())" % (a, a, cont, body(a, "e"), a, a),
            # {S}: the string constant is read from the passed function's code object (the enclosing context indents the file text)
            ["lambda e: e.mi_tag({S}) + %s" % body(a, "e")], False, "O7 one-line def with a multi-line string, defined at an indented level")
    # a lambda that ends its assignment statement (nothing stops the scan for its end), the next line starting with a bracket
    a = nb()
    add("sq_%d = lambda x: %s\n(lo_%d, hi_%d), nb_%d = (0, 10), 3\nr = ds.Select(lambda e: sq_%d(e.o_b))" % (a, body(a, "x"), a, a, a, a),
        ["lambda e: sq_%d(e.o_b)" % a], False, "O11 helper lambda ends its statement, next line starts with a bracket")
    out[-1]["truths"] = ["lambda e: %s" % body(a, "e.o_b")]
    out[-1]["as_written_ok"] = True      # a helper that cannot be recovered may stay a call by name (C05): the lambda as written is then the right record
    # a one-line function under a decorator that uses functools.wraps: what is passed is the wrapper, not the text inspect finds
    a = nb()
    add("def deco_%d(fn):\n    @functools.wraps(fn)\n    def scaled(x):\n        return fn(x) + 1000\n    return scaled\n@deco_%d\ndef pt_%d(x):\n    return %s\nr = ds.Select(pt_%d)" % (a, a, a, body(a, "x"), a),
        ["lambda x: (%s) + 1000" % body(a, "x")], False, "O10 one-line def under a functools.wraps decorator")
    # a user's own class with a method called Select that runs the function it is given at once; the function holds the real call, with the same parameter name
    a = nb()
    add("class Holder_%d:\n    def __init__(self, s):\n        self.s = s\n\n    def Select(self, fn):\n        return fn(self.s)\nr = Holder_%d(ds).Select(lambda e: e.Select(lambda e: %s))" % (a, a, body(a, "e")),
        ["lambda e: %s" % body(a, "e")], False, "O8 real call inside a lambda that a same-named method of a user class runs")
    out[-1]["known_id"] = "C03-enclosing-lambda-of-same-named-user-method"
    # ================= layouts that are not documented: identical or an exception, never another lambda
    a, b = nb(), nb()
    add("r = ds.Select(lambda x: {A}).Select(lambda x: {B})".format(A=body(a, "x"), B=body(b, "x")),
        ["lambda x: {A}".format(A=body(a, "x")), "lambda x: {B}".format(B=body(b, "x"))], False, "O1 same method and argument name on one line")
    a, b = nb(), nb()
    add("r = ds.Select(lambda x: {A}); q = ds.Select(lambda x: {B})".format(A=body(a, "x"), B=body(b, "x")),
        ["lambda x: {A}".format(A=body(a, "x")), "lambda x: {B}".format(B=body(b, "x"))], False, "O1 two statements on one line")
    a = nb()
    add("""
        def inner_{n}(e): return ds.Select(lambda e: {A})
        r = inner_{n}(1)
        """.format(n=a, A=body(a, "e")), ["lambda e: {A}".format(A=body(a, "e"))], False, "O2 call inside a one-line def")
    a = nb()
    add("""
        f_{n} = lambda e: {A}
        r = ds.Select(f_{n})
        """.format(n=a, A=body(a, "e")), ["lambda e: {A}".format(A=body(a, "e"))], False, "O3 lambda bound to a name first")
    a, b = nb(), nb()
    add("""
        f_{n} = lambda e: {A}; g_{n} = lambda e: {B}
        r = ds.Select(g_{n})
        """.format(n=a, A=body(a, "e"), B=body(b, "e")), ["lambda e: {B}".format(B=body(b, "e"))], False, "O3 two lambdas bound on one line")
    a = nb()
    add("r = [ds.Select(lambda e: {A}) for _ in range(1)]".format(A=body(a, "e")), ["lambda e: {A}".format(A=body(a, "e"))], False, "O4 inside a comprehension")
    a, b = nb(), nb()
    add("r = ds.Select(lambda e: {A}) if ds is not None else ds.Select(lambda e: {B})".format(A=body(a, "e"), B=body(b, "e")),
        ["lambda e: {A}".format(A=body(a, "e"))], False, "O4 inside a conditional expression")
    a, b = nb(), nb()
    add("r = ds.Select(lambda e: e.so_jets.Select(lambda j: {B}).Count() + {A})".format(A=body(a, "e"), B=body(b, "j")),
        ["lambda e: e.so_jets.Select(lambda j: {B}).Count() + {A}".format(A=body(a, "e"), B=body(b, "j"))], False, "O5 nested lambda on the same line")
    a, b = nb(), nb()
    add("r = ds.Select(lambda e: e.so_jets.Select(lambda e: {B}).Count() + {A})".format(A=body(a, "e"), B=body(b, "e")),
        ["lambda e: e.so_jets.Select(lambda e: {B}).Count() + {A}".format(A=body(a, "e"), B=body(b, "e"))], False, "O5 nested lambda, same method and argument name")
    a = nb()
    add("""
        r = ds \\
            .Select(lambda e: {A})
        """.format(A=body(a, "e")), ["lambda e: {A}".format(A=body(a, "e"))], False, "O6 backslash continuation")
    a = nb()
    add("r = ds.Select(lambda e: ({A}, [1, 2], {{'k': (3, 4)}}, e.f[1, 2], 'a,b)'))".format(A=body(a, "e")),
        ["lambda e: ({A}, [1, 2], {{'k': (3, 4)}}, e.f[1, 2], 'a,b)')".format(A=body(a, "e"))], False, "O7 commas and brackets in the body")
    a = nb()
    add("r = ds.Select(lambda e: {A},)".format(A=body(a, "e")), ["lambda e: {A}".format(A=body(a, "e"))], False, "O7 trailing comma")
    a, b = nb(), nb()
    add("r = ds.Select(lambda e: {A}).Where((lambda e: {B} > 1))".format(A=body(a, "e"), B=body(b, "e")),
        ["lambda e: {A}".format(A=body(a, "e")), "lambda e: {B} > 1".format(B=body(b, "e"))], False, "O7 parenthesised lambda")
    a, b = nb(), nb()
    add("""
        pair_{n} = (lambda e: {A}, lambda e: {B})
        r = ds.Select(pair_{n}[1])
        """.format(n=a, A=body(a, "e"), B=body(b, "e")), ["lambda e: {B}".format(B=body(b, "e"))], False, "O8 lambdas in a tuple, second one passed")
    a, b = nb(), nb()
    add("""
        r = ds.Select(lambda e: {A}).Select(
            lambda e: {B})
        """.format(A=body(a, "e"), B=body(b, "e")), ["lambda e: {A}".format(A=body(a, "e")), "lambda e: {B}".format(B=body(b, "e"))], False, "O9 second call's lambda on the next line")
    a, b = nb(), nb()
    add("""
        r = ds.Select(lambda e:
                      {A}).Select(lambda e: {B})
        """.format(A=body(a, "e"), B=body(b, "e")), ["lambda e: {A}".format(A=body(a, "e")), "lambda e: {B}".format(B=body(b, "e"))], False, "O9 body on the next line, second lambda after it")
    # ---- layouts that used to record a neighbouring lambda silently (repaired in /repo: they now raise; see known_findings.json "fixed")
    a, b = nb(), nb()
    add("""
        flag_{n} = False
        r = ds.Select((lambda e: {A}) if flag_{n} else (lambda e: {B}))
        """.format(n=a, A=body(a, "e"), B=body(b, "e")), ["lambda e: {B}".format(B=body(b, "e"))], False, "K1 conditional expression choosing between two lambdas")
    a, b = nb(), nb()
    add("r = ds.Select(f=lambda e: {A}).Select(lambda e: {B})".format(A=body(a, "e"), B=body(b, "e")),
        ["lambda e: {A}".format(A=body(a, "e")), "lambda e: {B}".format(B=body(b, "e"))], False, "K2 lambda passed by keyword, same-signature lambda later on the line")
    a, b, c = nb(), nb(), nb()
    add("""
        r = ds.Select(lambda e: e.so_jets.Select(
                lambda j: {B}).Count() + {A}).Select(lambda e: {C})
        """.format(A=body(a, "e"), B=body(b, "j"), C=body(c, "e")),
        ["lambda e: e.so_jets.Select(lambda j: {B}).Count() + {A}".format(A=body(a, "e"), B=body(b, "j")), "lambda e: {C}".format(C=body(c, "e"))], False,
        "K3 nested lambda starts the continuation line, same-signature call after it")
    a, b, c = nb(), nb(), nb()
    add("""
        r = ds.Select(lambda e: e.so_jets.Where(
                lambda j: {B} > 1).Count() + {A}).Where(lambda e: {C} > 1)
        """.format(A=body(a, "e"), B=body(b, "j"), C=body(c, "e")),
        ["lambda e: e.so_jets.Where(lambda j: {B} > 1).Count() + {A}".format(A=body(a, "e"), B=body(b, "j")), "lambda e: {C} > 1".format(C=body(c, "e"))], False,
        "K3 nested lambda starts the continuation line, different call after it")
    a, b = nb(), nb()
    add("r = ds.Select(lambda e: (lambda a, b: a + b)({A}, 1)).Select(lambda f: {B})".format(A=body(a, "e"), B=body(b, "f")),
        ["lambda e: (lambda a, b: a + b)({A}, 1)".format(A=body(a, "e")), "lambda f: {B}".format(B=body(b, "f"))], False, "K4 nested lambda with two parameters")
    # ---- K1 / K2 again with the body of the passed lambda on a continuation line that starts in column 0 (legal inside brackets at any indentation;
    #      lines marked @@0 are not indented by the enclosing context)
    # every instruction of the passed lambda starts in column 0 when its body is a bare attribute chain there
    a, b = nb(), nb()
    add("flag_%d = False\nr = ds.Select((lambda e: e.i_k%d) if flag_%d else (lambda e:\n@@0e.i_k%d))" % (a, a, a, b),
        ["lambda e: e.i_k%d" % b], False, "K5 conditional expression, chosen lambda's body starts in column 0")
    a, b = nb(), nb()
    add("r = ds.Select(lambda e: e.i_k%d).Select(f=lambda e:\n@@0e.i_k%d)" % (a, b),
        ["lambda e: e.i_k%d" % a, "lambda e: e.i_k%d" % b], False, "K5 lambda passed by keyword after a same-signature call, body starts in column 0")
    a, b, c = nb(), nb(), nb()
    add("r = ds.Select(lambda e: e.so_jets.Select(\n@@0lambda j: j.i_k%d)).Select(lambda e:\n@@0e.i_k%d)" % (a, b),
        ["lambda e: e.so_jets.Select(lambda j: j.i_k%d)" % a, "lambda e: e.i_k%d" % b], False,
        "K5 nested lambda starts the continuation line in column 0, same-signature call after it")
    # ---- the same lambda expression passed several times as different closures: every call records the lambda it was handed
    a = nb()
    add("""
        def mk_{n}(k):
            return ds.Select(lambda e: {A} + k)
        r0 = mk_{n}(1)
        r = mk_{n}(2)
        """.format(n=a, A=body(a, "e")), ["lambda e: {A} + k".format(A=body(a, "e"))] * 2, False, "H1 one lambda expression, two closures (factory)")
    out[-1]["truths"] = ["lambda e: {A} + {k}".format(A=body(a, "e"), k=k) for k in (1, 2)]
    a = nb()
    add("""
        for k in (3, 4, 5):
            r = ds.Where(lambda e: {A} > k)
        """.format(A=body(a, "e")), ["lambda e: {A} > k".format(A=body(a, "e"))] * 3, False, "H1 one lambda expression, three closures (loop)")
    out[-1]["truths"] = ["lambda e: {A} > {k}".format(A=body(a, "e"), k=k) for k in (3, 4, 5)]
    a = nb()
    add("""
        rs = [ds.Select(lambda e: {A} * k) for k in (6, 7)]
        """.format(A=body(a, "e")), ["lambda e: {A} * k".format(A=body(a, "e"))] * 2, False, "H1 one lambda expression, two closures (comprehension)")
    out[-1]["truths"] = ["lambda e: {A} * {k}".format(A=body(a, "e"), k=k) for k in (6, 7)]
    # ---- combinatorial chains: number of calls x methods x argument names x line-break style
    ncombo = 400 if thorough else 90
    styles = ["oneline", "black", "breakopen", "mixed", "bodybreak", "nestedbreak"]
    seen = set()
    tries = 0
    while len(seen) < ncombo and tries < ncombo * 20:
        tries += 1
        ncalls = rnd.choice([1, 2, 2, 3, 3, 4])
        ops = [rnd.choice(["Select", "Where", "Select", "SelectMany"]) for _ in range(ncalls)]
        vs = [rnd.choice(["e", "x", "e", "j"]) for _ in range(ncalls)]
        style = rnd.choice(styles)
        pre = rnd.choice(prefixes)
        key = (tuple(ops), tuple(vs), style, pre)
        if key in seen:
            continue
        seen.add(key)
        ids = [nb() for _ in range(ncalls)]
        lamsrc = ["lambda %s: %s" % (v, _arg2(op, body(i, v), v)) for op, v, i in zip(ops, vs, ids)]
        calls = [".%s(%s)" % (op, ls) for op, ls in zip(ops, lamsrc)]
        if style == "nestedbreak":
            # every Select/Where lambda holds a nested call whose own lambda starts the next line; everything is one bracketed expression
            nid = [nb() for _ in range(ncalls)]
            nest = ["%s.so_jets.Select(lambda q: q.i_pt + %d).Count() + " % (v, k) if op != "SelectMany" else "" for op, v, k in zip(ops, vs, nid)]
            lamsrc = ["lambda %s: %s" % (v, _arg2(op, nst + body(i, v), v)) for op, v, i, nst in zip(ops, vs, ids, nest)]
            code = pre + "ds" + "".join(".%s(%s)" % (op, ls.replace(".so_jets.Select(lambda q:", ".so_jets.Select(\n        lambda q:", 1) if nst else ls) for op, ls, nst in zip(ops, lamsrc, nest))
            lines = [list(range(ncalls))]
        elif style == "oneline":
            code = pre + "ds" + "".join(calls)
            lines = [list(range(ncalls))]
        elif style == "black":
            code = pre + "(\n    ds\n" + "".join("    %s\n" % c for c in calls) + ")"
            lines = [[k] for k in range(ncalls)]
        elif style == "breakopen":
            code = pre + "ds" + "".join(".%s(\n    %s\n)" % (op, ls) for op, ls in zip(ops, lamsrc))
            lines = [[k] for k in range(ncalls)]
        elif style == "bodybreak":
            # the body of every lambda is broken after its first operand (inside the call's parentheses)
            code = pre + "(ds" + "".join("\n    .%s(%s)" % (op, ls.replace(" + ", "\n        + ", 1)) for op, ls in zip(ops, lamsrc)) + ")"
            lines = [[k] for k in range(ncalls)]
        else:
            cut = max(1, ncalls - 1)
            code = pre + "(ds" + "".join(calls[:cut]) + "\n    " + "".join(calls[cut:]) + ")"
            lines = [list(range(cut)), list(range(cut, ncalls))]
        documented = all(len({(ops[k], vs[k]) for k in ln}) == len(ln) for ln in lines)
        if style == "nestedbreak":
            documented = False
        if style in ("mixed", "bodybreak") and len({(o, v) for o, v in zip(ops, vs)}) < ncalls:
            # a bracket opened on the lambda's own line makes the scan run on into the following lines: two lambdas with the same
            # method and argument name anywhere in the bracketed expression are then ambiguous - not a layout documented as supported
            documented = False
        add(code, lamsrc, documented, "C chain of %d, %s%s" % (ncalls, style, "" if documented else " (ambiguous)"))
    # ---- contexts: every case above is also wrapped in enclosing contexts / indentation
    base = list(out)
    wrapped = []
    ctxs = ["def", "class", "if", "decorated"] if thorough else ["def", "class"]
    for c in base:
        for ctx in ctxs:
            if not thorough and rnd.random() < 0.5:
                continue
            wrapped.append(dict(c, ctx=ctx))
    return [dict(c, ctx="plain") for c in base] + wrapped


def _arg2(op, b, v):
    if op == "Where":
        return b + " > 1"
    if op == "SelectMany":
        return "%s.so_jets.Select(lambda q: q.i_pt + %s)" % (v, b.split("+")[-1].strip())
    return b


def _arg(op, b):
    if op == "Where":
        return b + " > 1"
    if op == "SelectMany":
        return "e.so_jets.Select(lambda q: q.i_pt + %s)" % b.split("+")[-1].strip()
    return b


def _pin(text):
    "lines marked @@0 (after the context's indentation was added) go back to column 0"
    return "\n".join(ln.lstrip(" ")[3:] if ln.lstrip(" ").startswith("@@0") else ln for ln in text.split("\n"))


def render(cases_):
    """-> module source; each case becomes case_<k>(ds)"""
    return _pin(_render(cases_))


def _render(cases_):
    parts = ["import functools\n\n\ndef _deco(f):\n    return f\n\n"]
    for k, c in enumerate(cases_):
        code = c["code"]
        ctx = c.get("ctx", "plain")
        if ctx == "plain":
            body = textwrap.indent(code, "    ")
            parts.append("def case_%d(ds):\n%s\n" % (k, body))
        elif ctx == "def":
            body = textwrap.indent(code, "        ")
            parts.append("def case_%d(ds):\n    def inner():\n%s\n    return inner()\n" % (k, body))
        elif ctx == "class":
            body = textwrap.indent(code, "            ")
            parts.append("def case_%d(ds):\n    class K:\n        def m(self):\n%s\n    return K().m()\n" % (k, body))
        elif ctx == "if":
            body = textwrap.indent(code, "            ")
            parts.append("def case_%d(ds):\n    for _i in range(1):\n        if ds is not None:\n%s\n" % (k, body))
        else:
            body = textwrap.indent(code, "        ")
            parts.append("def case_%d(ds):\n    @_deco\n    def inner():\n%s\n    return inner()\n" % (k, body))
    return "\n\n".join(parts)
