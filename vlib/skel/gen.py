"""Typed skeleton grammar for query programs (the shape bound of engine T).

Opaque symbols follow the prefix convention of vlib.qsem.enc.rtype: i_ int, b_ bool, o_ object, so_ sequence of objects,
si_ sequence of ints; methods are mi_/mo_ (declared in RTYPES), functions fn_i_.
A `Chooser` resolves every grammar decision: exhaustively (odometer over decision vectors) or from a seeded RNG."""
import ast
import collections
import copy
import itertools
import random

L = ast.Load()

RTYPES = {"mi_pt": "i", "mi_e": "i", "mo_p": "o", "mso_trk": "so", "mb_ok": "b"}


class Truncated(Exception):
    pass


class BadPrefix(Exception):
    pass


class Chooser:
    def __init__(self, prefix=(), rnd=None, maxpicks=12):
        self.prefix = list(prefix)
        self.i = 0
        self.arity = []
        self.rnd = rnd
        self.maxpicks = maxpicks

    def pick(self, n):
        assert n >= 1
        if n == 1:
            return 0
        if self.i >= self.maxpicks:
            raise Truncated()
        if self.i < len(self.prefix):
            v = self.prefix[self.i]
            if v >= n:
                raise BadPrefix()
        elif self.rnd is not None:
            v = self.rnd.randrange(n)
            self.prefix.append(v)
        else:
            v = 0
            self.prefix.append(0)
        self.arity.append(n)
        self.i += 1
        return v


def enumerate_all(genfn, maxpicks, fixed=()):
    """yield (program, decision vector) for every complete derivation with at most maxpicks decisions.
    fixed: the first decisions are held at these values (partitioning over workers); an impossible prefix yields nothing"""
    prefix = list(fixed)
    nf = len(fixed)
    while True:
        ch = Chooser(prefix, maxpicks=maxpicks)
        try:
            yield genfn(ch), tuple(ch.prefix[:ch.i])
        except Truncated:
            pass
        except BadPrefix:
            return
        if ch.i < nf:
            return
        p = ch.prefix[:ch.i]
        ar = ch.arity[:ch.i]
        while len(p) > nf and p[-1] + 1 >= ar[-1]:
            p.pop()
            ar.pop()
        if len(p) <= nf:
            return
        p[-1] += 1
        prefix = p


# ---- types
I, B, O = "I", "B", "O"


def Sq(t):
    return ("S", t)


def Tp(*ts):
    return ("T",) + ts


def Rc(**kw):
    return ("R",) + tuple(sorted(kw.items()))


def is_seq(t):
    return isinstance(t, tuple) and t[0] == "S"


def is_tup(t):
    return isinstance(t, tuple) and t[0] == "T"


def is_rec(t):
    return isinstance(t, tuple) and t[0] == "R"


ATTR = {I: ["i_pt", "i_eta"], B: ["b_ok"], O: ["o_p"], ("S", O): ["so_jets", "so_trk"], ("S", I): ["si_hits"]}


def N(v):
    return ast.Name(v, L)


def lam(params, body):
    if isinstance(params, str):
        params = [params]
    return ast.Lambda(ast.arguments([], [ast.arg(p) for p in params], None, [], [], None, []), body)


class G:
    """form: 'fn' | 'meth' | 'mix' (operator calls in function / method form); feats: set of optional productions"""

    ALL = frozenset(["calllam", "kwlam", "curry", "first", "dict", "tuple", "ifexp", "bool", "count", "method", "func", "neg", "sum", "nested"])

    def __init__(self, ch, form="fn", feats=None, py=False, typed=False):
        self.ch = ch
        self.nb = 0
        self.form = "meth" if py else form
        self.py = py            # only forms CPython can execute on in-memory sequences (method-form operators, no record attribute access)
        self.typed = typed      # opaque members are methods of the typed model (mi_pt(), mso_jets(), ...) instead of attributes
        self.feats = self.ALL if feats is None else frozenset(feats)
        self.used = collections.Counter()
        self.rec_access = "key" if py else "both"   # how named records are taken apart: ['k'] / .k / both

    def fresh(self):
        self.nb += 1
        return "v%d" % self.nb

    def lam1(self, argt, bodyfn, scope, d):
        v = self.fresh()
        body, t = bodyfn(scope + [(v, argt)], d)
        return lam(v, body), t

    def opcall(self, op, src, *args):
        if self.form == "fn" or (self.form == "mix" and self.ch.pick(2) == 0):
            return ast.Call(N(op), [src] + list(args), [])
        return ast.Call(ast.Attribute(src, op, L), list(args), [])

    def expr(self, t, scope, d):
        "an expression of type t over the variables in scope, nesting budget d"
        opts = []
        for v, vt in scope:
            if vt == t:
                opts.append(("var", v))
            if is_tup(vt):
                for k, ct in enumerate(vt[1:]):
                    if ct == t:
                        opts.append(("idx", v, k))
            if is_rec(vt):
                for k, ct in vt[1:]:
                    if ct == t:
                        if self.rec_access in ("key", "both"):
                            opts.append(("key", v, k))
                        if self.rec_access in ("fld", "both"):
                            opts.append(("fld", v, k))
        F = self.feats
        if d > 0:
            if t in ATTR:
                opts.append(("attr",))
            if t == I:
                opts.append(("bin",))
                if "count" in F:
                    opts.append(("count",))
                if "calllam" in F:
                    opts.append(("calllam",))
                if "kwlam" in F:
                    opts.append(("kwlam",))
                if "curry" in F:
                    opts.append(("curry",))
                if "method" in F:
                    opts.append(("method",))
                if "func" in F:
                    opts.append(("func",))
                if "neg" in F:
                    opts.append(("neg",))
                if "sum" in F:
                    opts.append(("sum",))
                if "tuple" in F:
                    opts.append(("mkproj",))
                if "comp" in F and self.py:
                    opts.append(("lencomp",))     # a comprehension is a plain Python list: only len() can consume it
            if t == B:
                opts.append(("cmp",))
                if "bool" in F:
                    opts.append(("boolop",))
            if t in (I, O):
                if "first" in F:
                    opts.append(("first",))
                if "ifexp" in F:
                    opts.append(("if",))
            if is_seq(t):
                opts.append(("select",))
                opts.append(("where",))
                if "comp" in F and not self.py:
                    opts.append(("comp",))
                if "nested" in F and t == Sq(O):
                    opts.append(("selectmany",))
        if not opts:
            raise Truncated()
        o = opts[self.ch.pick(len(opts))]
        k = o[0]
        self.used[k] += 1
        if k == "var":
            return N(o[1])
        if k == "idx":
            return ast.Subscript(N(o[1]), ast.Constant(o[2]), L)
        if k == "key":
            return ast.Subscript(N(o[1]), ast.Constant(o[2]), L)
        if k == "fld":
            return ast.Attribute(N(o[1]), o[2], L)
        if k == "attr":
            names = ATTR[t]
            recv = self.expr(O, scope, d - 1)
            nm = names[self.ch.pick(len(names))]
            if self.typed:
                return self.typed_member(recv, nm, scope, d)
            return ast.Attribute(recv, nm, L)
        if k == "bin":
            op = [ast.Add, ast.Sub][self.ch.pick(2)]()
            return ast.BinOp(self.expr(I, scope, d - 1), op, self.expr(I, scope, d - 1))
        if k == "neg":
            return ast.UnaryOp(ast.USub(), self.expr(I, scope, d - 1))
        if k == "cmp":
            op = [ast.Gt, ast.Lt, ast.Eq][self.ch.pick(3)]()
            return ast.Compare(self.expr(I, scope, d - 1), [op], [self.expr(I, scope, d - 1)])
        if k == "boolop":
            c = self.ch.pick(3)
            if c == 2:
                return ast.UnaryOp(ast.Not(), self.expr(B, scope, d - 1))
            return ast.BoolOp([ast.And, ast.Or][c](), [self.expr(B, scope, d - 1), self.expr(B, scope, d - 1)])
        if k == "count":
            et = [O, I][self.ch.pick(2)]
            return self.opcall("Count", self.expr(Sq(et), scope, d - 1))
        if k == "sum":
            fn = "len" if self.py else ["Sum", "Max", "len"][self.ch.pick(3)]
            return ast.Call(N(fn), [self.expr(Sq(I), scope, d - 1)], [])
        if k == "first":
            return self.opcall("First", self.expr(Sq(t), scope, d - 1))
        if k == "if":
            return ast.IfExp(self.expr(B, scope, d - 1), self.expr(t, scope, d - 1), self.expr(t, scope, d - 1))
        if k == "method":
            recv = self.expr(O, scope, d - 1)
            c = self.ch.pick(3)
            if c == 0:
                return ast.Call(ast.Attribute(recv, "mi_pt", L), [], [])
            if c == 1:
                return ast.Call(ast.Attribute(recv, "mi_pt", L), [self.expr(I, scope, d - 1)], [])
            return ast.Call(ast.Attribute(recv, "mi_e", L), [ast.Constant(1)], [ast.keyword("k", self.expr(I, scope, d - 1))])
        if k == "func":
            return ast.Call(N("fn_i_calib"), [self.expr(O, scope, d - 1)], [])
        if k == "mkproj":
            # build a package and take it apart again in place
            c = self.ch.pick(2 if self.py else 3)
            a, b = self.expr(I, scope, d - 1), self.expr(O, scope, d - 1)
            if c == 0:
                return ast.Subscript(ast.Tuple([a, b], L), ast.Constant(0), L)
            if c == 1:
                return ast.Subscript(ast.Dict([ast.Constant("a"), ast.Constant("b")], [b, a]), ast.Constant("b"), L)
            return ast.Attribute(ast.Dict([ast.Constant("a"), ast.Constant("b")], [a, b]), "a", L)
        if k == "calllam":
            at = [I, O][self.ch.pick(2)]
            lm, _ = self.lam1(at, lambda sc, dd: (self.expr(I, sc, dd), I), scope, d - 1)
            return ast.Call(lm, [self.expr(at, scope, d - 1)], [])
        if k == "kwlam":
            p, q = self.fresh(), self.fresh()
            body = ast.BinOp(self.expr(I, scope + [(p, I), (q, O)], d - 1), ast.Sub(), N(p))
            a, b = self.expr(I, scope, d - 1), self.expr(O, scope, d - 1)
            c = self.ch.pick(3)
            if c == 0:
                return ast.Call(lam([p, q], body), [a], [ast.keyword(q, b)])
            if c == 1:
                return ast.Call(lam([p, q], body), [], [ast.keyword(q, b), ast.keyword(p, a)])
            return ast.Call(lam([p, q], body), [a, b], [])
        if k == "curry":
            p, q = self.fresh(), self.fresh()
            inner = lam(q, self.expr(I, scope + [(p, I), (q, O)], d - 1))
            return ast.Call(ast.Call(lam(p, inner), [self.expr(I, scope, d - 1)], []), [self.expr(O, scope, d - 1)], [])
        if k == "select":
            et = t[1]
            st = [O, I][self.ch.pick(2)]
            src = self.expr(Sq(st), scope, d - 1)
            lm, _ = self.lam1(st, lambda sc, dd: (self.expr(et, sc, dd), et), scope, d - 1)
            return self.opcall("Select", src, lm)
        if k == "where":
            et = t[1]
            src = self.expr(t, scope, d - 1)
            lm, _ = self.lam1(et, lambda sc, dd: (self.expr(B, sc, dd), B), scope, d - 1)
            return self.opcall("Where", src, lm)
        if k == "lencomp":
            et = [I, O][self.ch.pick(2)]
            return ast.Call(N("len"), [self.mkcomp(et, scope, d, list_only=True)], [])
        if k == "comp":
            return self.mkcomp(t[1], scope, d)
        if k == "selectmany":
            src = self.expr(Sq(O), scope, d - 1)
            lm, _ = self.lam1(O, lambda sc, dd: (self.expr(Sq(O), sc, dd), Sq(O)), scope, d - 1)
            return self.opcall("SelectMany", src, lm)
        raise AssertionError(k)

    def mkcomp(self, et, scope, d, list_only=False):
            "[elt for v in src if c1 if c2 ...]  (list comprehension or generator expression)"
            st = [O, I][self.ch.pick(2)]
            src = self.expr(Sq(st), scope, d - 1)
            v = self.fresh()
            sc2 = scope + [(v, st)]
            nifs = self.ch.pick(3)
            ifs = [self.expr(B, sc2, d - 1) for _ in range(nifs)]
            elt = self.expr(et, sc2, d - 1)
            node = ast.ListComp if list_only else [ast.ListComp, ast.GeneratorExp][self.ch.pick(2)]
            return node(elt, [ast.comprehension(ast.Name(v, ast.Store()), src, ifs, 0)])

    TYPED_DEFAULTS = {"mi_pt": [("scale", 1)], "mso_jets": [("name", "d")], "mso_trk": [("n", 3)]}

    def typed_member(self, recv, attr_name, scope, d):
        "i_pt -> recv.mi_pt(...) with the declared defaults omitted, given positionally or by keyword"
        m = "m" + attr_name
        dflt = self.TYPED_DEFAULTS.get(m)
        if not dflt:
            return ast.Call(ast.Attribute(recv, m, L), [], [])
        pname, pval = dflt[0]
        c = self.ch.pick(3)
        if c == 0:
            return ast.Call(ast.Attribute(recv, m, L), [], [])
        val = ast.Constant(pval if c == 1 or isinstance(pval, str) else pval + 1)
        if c == 1:
            return ast.Call(ast.Attribute(recv, m, L), [val], [])
        return ast.Call(ast.Attribute(recv, m, L), [], [ast.keyword(pname, val)])

    def item_expr(self, scope, d):
        "body of a Select stage: (expr, type) - scalar, object, package or sequence"
        kinds = ["int", "obj", "seqo", "seqi"]
        if "tuple" in self.feats:
            kinds += ["tuple", "tuple_nested", "list"]
        if "dict" in self.feats:
            kinds += ["dict"]
        kind = kinds[self.ch.pick(len(kinds))]
        if kind == "int":
            return self.expr(I, scope, d), I
        if kind == "obj":
            return self.expr(O, scope, d), O
        if kind in ("tuple", "list"):
            ts = [[I, O][self.ch.pick(2)], [I, Sq(O)][self.ch.pick(2)]]
            node = ast.Tuple if kind == "tuple" else ast.List
            return node([self.expr(x, scope, d) for x in ts], L), Tp(*ts)
        if kind == "tuple_nested":
            inner = Tp(I, O)
            e = ast.Tuple([ast.Tuple([self.expr(I, scope, d), self.expr(O, scope, d)], L), self.expr(Sq(O), scope, d)], L)
            return e, Tp(inner, Sq(O))
        if kind == "dict":
            ts = [[I, O][self.ch.pick(2)], [I, Sq(O)][self.ch.pick(2)]]
            return ast.Dict([ast.Constant("a"), ast.Constant("b")], [self.expr(x, scope, d) for x in ts]), Rc(a=ts[0], b=ts[1])
        if kind == "seqo":
            return self.expr(Sq(O), scope, d), Sq(O)
        return self.expr(Sq(I), scope, d), Sq(I)

    def chain(self, nstages, d, final_scalar=False):
        q = N("ds")
        t = O
        for s in range(nstages):
            ops = ["Select", "Where"] + (["SelectMany"] if True else [])
            op = ops[self.ch.pick(3)]
            if op == "Select":
                if final_scalar and s == nstages - 1:
                    lm, t2 = self.lam1(t, lambda sc, dd: (self.expr(I, sc, dd), I), [], d)
                else:
                    lm, t2 = self.lam1(t, lambda sc, dd: self.item_expr(sc, dd), [], d)
                q = self.opcall("Select", q, lm)
                t = t2
            elif op == "Where":
                lm, _ = self.lam1(t, lambda sc, dd: (self.expr(B, sc, dd), B), [], d)
                q = self.opcall("Where", q, lm)
            else:
                et = [O, I][self.ch.pick(2)]
                lm, _ = self.lam1(t, lambda sc, dd: (self.expr(Sq(et), sc, dd), Sq(et)), [], d)
                q = self.opcall("SelectMany", q, lm)
                t = et
        return q


# ------------------------------------------------------------------ binder naming
def binding_signature(tree, globals_ok=()):
    """for every Name occurrence (in traversal order) the index of the lambda parameter / comprehension target it refers to,
    or ('free', name).  Two programs with the same shape and the same signature mean the same under Python scoping."""
    sig = []
    counter = [0]

    def walk(n, env):
        if isinstance(n, ast.Lambda):
            for dflt in list(n.args.defaults) + [d for d in n.args.kw_defaults if d is not None]:
                walk(dflt, env)
            e2 = dict(env)
            for a in n.args.posonlyargs + n.args.args + ([n.args.vararg] if n.args.vararg else []) + n.args.kwonlyargs + ([n.args.kwarg] if n.args.kwarg else []):
                e2[a.arg] = counter[0]
                counter[0] += 1
            walk(n.body, e2)
            return
        if isinstance(n, (ast.ListComp, ast.GeneratorExp)):
            e2 = dict(env)
            for g in n.generators:
                walk(g.iter, dict(e2))
                if isinstance(g.target, ast.Name):
                    e2[g.target.id] = counter[0]
                    counter[0] += 1
                for i in g.ifs:
                    walk(i, dict(e2))
            walk(n.elt, e2)
            return
        if isinstance(n, ast.Name):
            sig.append(env.get(n.id, ("free", n.id)))
            return
        if isinstance(n, ast.keyword):
            walk(n.value, env)
            return
        for c in ast.iter_child_nodes(n):
            walk(c, env)
    walk(tree, {})
    return sig


def rename_binders(q, scheme, pool=("x", "y", "z", "w", "u", "t", "s")):
    """Rename lambda binders (unique names in the input).  scheme 'distinct': unchanged; 'reuse': re-use names as much as Python
    scoping allows while every reference keeps resolving to its intended binder (first-fit from the pool)."""
    if scheme == "distinct":
        return q
    q = copy.deepcopy(q)
    conflicts = collections.defaultdict(set)
    order = []

    def walk(n, chain):
        if isinstance(n, ast.Lambda):
            bs = [a.arg for a in n.args.args]
            for b in bs:
                order.append(b)
                for b2 in bs:
                    if b2 != b:
                        conflicts[b].add(b2)
            walk(n.body, chain + bs)
            return
        if isinstance(n, (ast.ListComp, ast.GeneratorExp)):
            g = n.generators[0]
            walk(g.iter, chain)
            b = g.target.id
            order.append(b)
            for i in g.ifs:
                walk(i, chain + [b])
            walk(n.elt, chain + [b])
            return
        if isinstance(n, ast.Name) and n.id in chain:
            i = chain.index(n.id)
            for c in chain[i + 1:]:
                conflicts[n.id].add(c)
                conflicts[c].add(n.id)
        for c in ast.iter_child_nodes(n):
            walk(c, chain)
    walk(q, [])
    name = {}
    for b in order:
        used = {name[c] for c in conflicts[b] if c in name}
        name[b] = next(p for p in pool if p not in used)

    class R(ast.NodeTransformer):
        def visit_Name(self, n):
            return ast.Name(name.get(n.id, n.id), n.ctx)

        def visit_arg(self, n):
            return ast.arg(name.get(n.arg, n.arg))

        def visit_keyword(self, n):
            return ast.keyword(name.get(n.arg, n.arg), self.visit(n.value))
    return R().visit(q)


def family_instances(template, placeholders, pool=("x", "y")):
    """every assignment of pool names to the placeholders of a template under which Python scoping gives each reference its
    intended binder (the reference program uses one distinct name per placeholder)"""
    ref_src = template.format(**{p: "ref_%s" % p for p in placeholders})
    ref = ast.parse(ref_src, mode="eval").body
    ref_sig = binding_signature(ref)
    out = []
    for names in itertools.product(pool, repeat=len(placeholders)):
        src = template.format(**dict(zip(placeholders, names)))
        try:
            q = ast.parse(src, mode="eval").body
        except SyntaxError:
            continue
        if binding_signature(q) == ref_sig:
            out.append((src, q))
    return out
