"""Engine S driver: partitions CrossHair analyses of harness functions over worker processes,
collects verdicts and solver statistics, parses counterexamples and replays them natively
(without CrossHair) before anything is reported."""
import json
import os
import re
import subprocess
import sys
import tempfile
import time
from concurrent.futures import ThreadPoolExecutor
from dataclasses import dataclass, field
from typing import List, Tuple

PY = sys.executable
ROOT = os.path.dirname(os.path.dirname(os.path.abspath(__file__)))
NWORKERS = int(os.environ.get("VERIF_WORKERS", "16"))
NATIVE_SAMPLES = int(os.environ.get("VERIF_NATIVE_SAMPLES", "60"))
try:
    SEED = int(os.environ.get("VERIF_SEED", "0"))
except ValueError:
    SEED = 0


@dataclass
class SJob:
    module: str
    fn: str
    partitions: List[Tuple[int, int]]
    cond_timeout: float
    path_timeout: float = 30.0
    what: str = ""  # one line: what is symbolic, what the bound is


@dataclass
class SOutcome:
    jobs: int = 0
    partitions: int = 0
    confirmed: int = 0
    inconclusive: List[dict] = field(default_factory=list)
    counterexamples: List[dict] = field(default_factory=list)  # reproduced natively
    unreproduced: List[dict] = field(default_factory=list)
    harness_errors: List[str] = field(default_factory=list)
    twins_ok: int = 0
    twins: int = 0
    paths: int = 0
    reached: int = 0
    checks: int = 0
    solver_s: float = 0.0
    cpu_wall_s: float = 0.0
    samples: List[str] = field(default_factory=list)
    per_job: dict = field(default_factory=dict)


def _spawn(args, timeout):
    env = dict(os.environ)
    env["PYTHONPATH"] = ROOT + (":" + env["PYTHONPATH"] if env.get("PYTHONPATH") else "")
    env["PYTHONHASHSEED"] = "0"
    try:
        p = subprocess.run([PY, "-m", "vlib.chworker"] + [str(a) for a in args], capture_output=True, text=True, timeout=timeout, env=env, cwd=ROOT)
    except subprocess.TimeoutExpired:
        return None, "timeout after %ss" % timeout
    for line in p.stdout.splitlines():
        if line.startswith("RESULT "):
            return json.loads(line[7:]), None
    return None, "no result (rc=%s): %s" % (p.returncode, (p.stderr or p.stdout)[-800:])


_CALL_RE = re.compile(r"when calling (\w+)\((.*)\)\s*$", re.S)


def parse_counterexample(message: str):
    """-> (argstr, returned) from a CrossHair message; argstr is the text between the parentheses."""
    msg = message
    returned = None
    k = msg.rfind(" (which returns ")
    if k >= 0 and msg.endswith(")"):
        returned = msg[k + len(" (which returns "):-1]
        msg = msg[:k]
    m = _CALL_RE.search(msg)
    if not m:
        return None, returned
    return m.group(2), returned


def decode_args(payload):
    ns = {"float": float, "dict": dict, "nan": float("nan"), "inf": float("inf"), "True": True, "False": False, "None": None,
          "bytes": bytes, "bytearray": bytearray, "set": set, "frozenset": frozenset, "tuple": tuple, "list": list, "int": int, "str": str}
    ns["_f"] = lambda *a, **k: (list(a), k)
    return eval("_f(%s)" % payload["argstr"], {"__builtins__": {}}, ns)


def replay_native(module, fn, argstr):
    with tempfile.NamedTemporaryFile("w", suffix=".json", delete=False) as f:
        json.dump({"argstr": argstr}, f)
        path = f.name
    try:
        r, err = _spawn(["replay", module, fn, path], 300)
    finally:
        os.unlink(path)
    if r is None:
        return {"error": err}
    return r


def run_jobs(jobs: List[SJob], twin_all=False) -> SOutcome:
    out = SOutcome(jobs=len(jobs))
    tasks = []
    for j in jobs:
        out.per_job[j.fn] = {"what": j.what, "partitions": len(j.partitions), "confirmed": 0, "paths": 0, "reached": 0, "checks": 0, "solver_s": 0.0,
                             "cond_timeout_s": j.cond_timeout}
        for k, (lo, hi) in enumerate(j.partitions):
            tasks.append((j, lo, hi, "main"))
            if twin_all or k == 0:
                tasks.append((j, lo, hi, "twin"))
            tasks.append((j, lo, hi, "sample"))

    def work(t):
        j, lo, hi, mode = t
        if mode == "sample":
            r, err = _spawn(["sample", j.module, j.fn, lo, hi, NATIVE_SAMPLES, SEED + lo], 900)
            return t, r, err
        ct = j.cond_timeout if mode == "main" else min(j.cond_timeout, 120)
        r, err = _spawn(["run", j.module, j.fn, lo, hi, ct, j.path_timeout, mode], ct * 1.6 + 120)
        return t, r, err

    t0 = time.time()
    # twins first so that a vacuous harness is known early; long partitions are started in given order
    tasks.sort(key=lambda t: 0 if t[3] == "twin" else 1)
    with ThreadPoolExecutor(max_workers=NWORKERS) as ex:
        results = list(ex.map(work, tasks))
    out.cpu_wall_s = round(time.time() - t0, 1)

    for (j, lo, hi, mode), r, err in results:
        tag = "%s.%s[%d,%d)" % (j.module.split(".")[-1], j.fn, lo, hi)
        if r is None:
            if mode == "sample":
                out.harness_errors.append("native sampling of %s failed: %s" % (tag, err))
                continue
            if mode == "twin":
                out.twins += 1
                out.harness_errors.append("twin %s: %s" % (tag, err))
            else:
                out.partitions += 1
                out.inconclusive.append({"partition": tag, "why": err})
            continue
        if mode == "sample":
            out.native_cross_checks = getattr(out, "native_cross_checks", 0) + r.get("ran", 0)
            for f in r.get("fails", []):
                rec = {"harness": j.module, "fn": j.fn, "partition": [lo, hi], "state": "NATIVE_SAMPLE", "argstr": f["argstr"],
                       "message": "native cross-check input fails: " + f["returned"], "native_replay": {"returned": f["returned"]}}
                if f["returned"].startswith("native raised"):
                    out.harness_errors.append("harness %s raised on native sample %s: %s" % (tag, f["argstr"], f["returned"][:300]))
                else:
                    out.counterexamples.append(rec)
            continue
        msgs = r["messages"]
        states = [m["state"] for m in msgs]
        if mode == "twin":
            out.twins += 1
            if any(s == "POST_FAIL" for s in states):
                out.twins_ok += 1
                a, _ = parse_counterexample([m for m in msgs if m["state"] == "POST_FAIL"][0]["message"])
                if a and len(out.samples) < 12:
                    out.samples.append("%s(%s)" % (j.fn, a))
            else:
                out.harness_errors.append("vacuity twin of %s did not reach the end of the harness: %s" % (tag, json.dumps(msgs)[:400]))
            continue
        out.partitions += 1
        pj = out.per_job[j.fn]
        for k in ("paths", "reached", "checks", "solver_s"):
            pj[k] = round(pj[k] + r[k], 3)
        out.paths += r["paths"]
        out.reached += r.get("reached", 0)
        out.checks += r["checks"]
        out.solver_s = round(out.solver_s + r["solver_s"], 3)
        if not msgs:
            out.inconclusive.append({"partition": tag, "why": "no message"})
            continue
        bad = [m for m in msgs if m["state"] in ("POST_FAIL", "EXEC_ERR", "POST_ERR")]
        if bad:
            m = bad[0]
            argstr, returned = parse_counterexample(m["message"])
            rec = {"harness": j.module, "fn": j.fn, "partition": [lo, hi], "state": m["state"], "message": m["message"][:1500], "argstr": argstr}
            if argstr is None:
                out.harness_errors.append("cannot parse counterexample of %s: %s" % (tag, m["message"][:300]))
                continue
            rp = replay_native(j.module, j.fn, argstr)
            rec["native_replay"] = rp
            if "raised" in rp or "error" in rp:
                # harnesses catch what func_adl raises and return a diagnostic; an exception escaping the harness is a harness bug
                out.harness_errors.append("harness %s raised during native replay of %s: %s" % (tag, argstr, json.dumps(rp)[:300]))
            elif rp.get("returned", "") not in ("", None):
                out.counterexamples.append(rec)
            else:
                out.unreproduced.append(rec)
                out.harness_errors.append("counterexample of %s does not reproduce natively: %s" % (tag, m["message"][:300]))
            continue
        if all(s == "CONFIRMED" for s in states):
            out.confirmed += 1
            pj["confirmed"] += 1
        elif any(s == "PRE_UNSAT" for s in states):
            out.harness_errors.append("precondition unsatisfiable in %s: %s" % (tag, msgs[0]["message"][:200]))
        elif any(s in ("DRIVER_ERR", "SYNTAX_ERR", "IMPORT_ERR") for s in states):
            out.harness_errors.append("%s: %s" % (tag, json.dumps(msgs)[:600]))
        else:
            out.inconclusive.append({"partition": tag, "why": ",".join(states), "paths": r["paths"], "wall_s": r["wall_s"]})
    return out


def fold_into(run, so: SOutcome, replay_cmd_hint=""):
    """Put an SOutcome into a report.Run (violations, harness errors, coverage numbers)."""
    c = run.coverage
    c["s_partitions"] = c.get("s_partitions", 0) + so.partitions
    c["s_partitions_confirmed_over_all_paths"] = c.get("s_partitions_confirmed_over_all_paths", 0) + so.confirmed
    c["s_paths"] = c.get("s_paths", 0) + so.paths
    c["s_paths_reaching_code_under_test"] = c.get("s_paths_reaching_code_under_test", 0) + so.reached
    c["s_z3_check_calls"] = c.get("s_z3_check_calls", 0) + so.checks
    c["s_solver_seconds"] = round(c.get("s_solver_seconds", 0) + so.solver_s, 2)
    c["s_vacuity_twins_reached"] = "%d/%d" % (so.twins_ok, so.twins)
    c["s_native_cross_check_inputs"] = c.get("s_native_cross_check_inputs", 0) + getattr(so, "native_cross_checks", 0)
    c.setdefault("s_harnesses", {}).update(so.per_job)
    for i in so.inconclusive:
        run.inconclusive.append(i)
    for h in so.harness_errors:
        run.harness_error(h)
    for rec in so.counterexamples:
        run.violation("%s %s -> %s" % (rec["fn"], rec["argstr"], json.dumps(rec["native_replay"])[:300]), dict(rec, engine="S"))
    return so
