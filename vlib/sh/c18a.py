"""C18 (totality): simplify_chained_calls on literal projections with a symbolic selector."""
import ast

from func_adl.ast.function_simplifier import FuncADLIndexError, simplify_chained_calls

from vlib.sh.common import HI, LO, TWIN, L, attr, call, const, dump, lam, mcall, name, nt, pick, sub, tick

NCONT, NPOS, NSEL = 6, 4, 11


PLACEHOLDER = {int: 7, bool: True, str: "s", float: 1.5, bytes: b"b"}


def stand_in(x):
    "a concrete value of the same Python type for a symbolic leaf (validity of an AST depends on leaf types, not values)"
    try:
        from crosshair.core import python_type
        from crosshair.util import CrossHairValue
    except ImportError:
        return x
    if isinstance(x, CrossHairValue):
        return PLACEHOLDER[python_type(x)]
    return x


def concretize(n):
    """fresh copy of the tree (call under nt()) in which symbolic leaves are replaced by stand-ins of the same type, so that
    CPython's C-level compile / unparse can be applied without realising (and thereby enumerating) the values"""
    if isinstance(n, ast.AST):
        return type(n)(**{f: concretize(getattr(n, f)) for f in n._fields if hasattr(n, f)})
    if isinstance(n, list):
        return [concretize(x) for x in n]
    return stand_in(n)


def container(ck, v, n, ks):
    el = [attr(v, "f%d" % i) for i in range(n)]
    if ck == 0:
        return ast.Tuple(el, L)
    if ck == 1:
        return ast.List(el, L)
    if ck == 2:
        return ast.Dict([const("a"), const("b")], [attr(v, "f0"), attr(v, "f1")])
    if ck == 3:
        return ast.Dict([const(0), const(1)], [attr(v, "f0"), attr(v, "f1")])
    if ck == 5:   # a display with a starred element: where the other elements sit is not known when the query is simplified
        return ast.Tuple(el[:max(n - 1, 0)] + [attr(v, "f0"), ast.Starred(attr(v, "rest"), L)], L) if ks == "" else \
            ast.Tuple([ast.Starred(attr(v, "rest"), L)] + el[:max(n - 1, 0)] + [attr(v, "f0")], L)    # starred element last / first (the symbolic key string decides)
    return ast.Dict([const(ks), const("b")], [attr(v, "f0"), attr(v, "f1")])


def selector(sk, k, b, s):
    if sk == 0:
        return const(k)
    if sk == 1:
        return const(b)
    if sk == 2:
        return const(None)
    if sk == 3:
        return const(s)
    if sk == 4:
        return attr("e", "i")
    if sk == 5:
        return ast.UnaryOp(ast.USub(), const(k))
    if sk == 6:
        return ast.Slice(const(0), const(k), None)
    if sk == 7:
        return const(1.0)
    if sk == 8:
        return ast.Slice(const(k), None, None)
    if sk == 9:
        return ast.Slice(None, None, const(k))
    return ast.Slice(const(1), const(3), const(k))


def build(ck, pos, n, sel_fn, ks):
    if pos == 0:
        return call("Select", name("ds"), lam("e", ast.Subscript(container(ck, "e", n, ks), sel_fn(), L)))
    if pos == 1:
        return call("Select", call("Select", name("ds"), lam("e", container(ck, "e", n, ks))), lam("e", ast.Subscript(name("e"), sel_fn(), L)))
    if pos == 2:
        inner = call("Select", attr("e", "js"), lam("j", container(ck, "j", n, ks)))
        return call("Select", name("ds"), lam("e", ast.Subscript(call("First", inner), sel_fn(), L)))
    w = call("Where", call("Select", name("ds"), lam("e", container(ck, "e", n, ks))), lam("t", ast.Compare(ast.Subscript(name("t"), sel_fn(), L), [ast.Gt()], [const(1)])))
    return call("Select", w, lam("t", attr("t", "x")))


def c18a(code: int, sk: int, n: int, k: int, b: bool, s: str, ks: str) -> str:
    """
    pre: LO <= code < HI and 0 <= code < 24
    pre: 0 <= sk < 11 and 0 <= n <= 3 and -5 <= k <= 5 and len(s) <= 2 and len(ks) <= 2
    post: (_ == '') != TWIN
    """
    code = pick(code, max(LO, 0), min(HI, NCONT * NPOS))
    ck, pos = code // NPOS, code % NPOS
    sk = pick(sk, 0, NSEL)
    n = pick(n, 0, 4) if ck < 2 or ck == 5 else 2
    if sk in (5, 6, 8, 9, 10):
        if k < 0 or (sk >= 9 and k == 0):
            return ""
        if sk != 5:
            k = pick(k, 0, 6)      # a slice bound can become a list length inside the code under test: case split instead of a symbolic length
    q = build(ck, pos, n, lambda: selector(sk, k, b, s), ks)
    tick()
    try:
        r = simplify_chained_calls().visit(q)
    except FuncADLIndexError:
        if ck < 2 and sk == 0 and (k >= n or k < -n):
            return ""
        if ck < 2 and sk == 1 and b and n < 2:
            return ""
        if ck < 2 and sk == 1 and (not b) and n < 1:
            return ""
        return "FuncADLIndexError although the selector is not a constant index beyond the end"
    except Exception as e:
        return "raised %s: %s" % (type(e).__name__, e)
    if not isinstance(r, ast.AST):
        return "did not return an AST"
    with nt():
        c = concretize(r)
        try:
            txt = ast.unparse(c)
            compile(ast.fix_missing_locations(ast.Expression(c)), "<simplified>", "eval")
            compile(txt, "<unparsed>", "eval")
        except Exception as e:
            return "result is not a valid AST (%s: %s): %s" % (type(e).__name__, e, dump(c)[:300])
    return ""
