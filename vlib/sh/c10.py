"""C10: untyped queries pass through unchanged; refusals are explicit.

Every expression form (root) with every expression form in one operand position (child), children of the child being leaves.
The chooser reads its decisions from symbolic ints, so the skeleton itself is solver-split; integer constants, dictionary keys and
subscript indices are symbolic leaves."""
import ast

from func_adl import EventDataset

from vlib.sh.common import HI, LO, TWIN, L, dump, nt, same_fast, tick

# attribute / function names, including names that mean something to Python's own ast objects
NAMES = ["pt", "value", "elts", "keys", "id", "attr", "func", "args", "slice", "body", "n", "s", "lineno", "_fields", "ctx"]
STRS = ["k", "a b", "b", "class", "\u00aa"]
NFORMS = 13
NLEAF = 7
OPS = ["Select", "SelectMany", "Where"]


class UDS(EventDataset):
    async def execute_result_async(self, a, title=None):
        return a


class BadPick(Exception):
    "the pick vector does not denote a distinct skeleton: generation stops at once (no path is spent on the rest of the tree)"


class Ch:
    "chooser: consumes symbolic ints; every pick is a solver-checked case split"

    def __init__(self, picks):
        self.p, self.i, self.bad = picks, 0, False

    def pick(self, n):
        if n <= 1:
            return 0
        if self.i >= len(self.p):
            self.bad = True
            raise BadPick()
        v = self.p[self.i]
        self.i += 1
        for j in range(n):
            if v == j:
                return j
        self.bad = True     # value outside this pick's range: not a distinct skeleton
        raise BadPick()


class Flags:
    def __init__(self):
        self.none_const = False       # a constant that cannot be transported
        self.ifexp = []               # (kind of body, kind of orelse)
        self.tuple_index = []         # (arity, index value (symbolic), index is a constant)
        self.dict_lookup = []         # (defined?) for lookups into a dict literal
        self.has_dict = False
        self.depth = 0                # > 0 while building the body of a nested lambda (not examined on an untyped stream)
        self.nested = False           # some refusal candidate sits inside a nested lambda
        self.lite = False             # quick tier: fewer operator variants per form
        self.may = False              # a refusal is possible but not certain (e.g. lookup in a dict whose keys prevent typing)


def N(v):
    return ast.Name(v, L)


def kind_of(n):
    "static kind used only to decide whether a conditional's branches are compatible"
    if isinstance(n, ast.Constant):
        v = n.value
        if v is None:
            return "none"
        if isinstance(v, bool):
            return "bool"
        if isinstance(v, (int, float)):
            return "num"
        if isinstance(v, str):
            return "str"
        return "other"
    if isinstance(n, (ast.Compare, ast.BoolOp)):
        return "bool"
    if isinstance(n, ast.UnaryOp):
        return "bool" if isinstance(n.op, ast.Not) else kind_of(n.operand)
    if isinstance(n, ast.BinOp):
        a, b = kind_of(n.left), kind_of(n.right)
        return "num" if (a in ("num", "bool") and b in ("num", "bool")) else ("any" if "any" in (a, b) else "mixed")
    if isinstance(n, ast.Tuple):
        return "tuple"
    if isinstance(n, ast.List):
        return "list"
    if isinstance(n, ast.Dict):
        return "dict"
    if isinstance(n, ast.Lambda):
        return "lambda"
    if isinstance(n, ast.IfExp):
        return "cond"
    return "any"


def leaf(ch, v, k, s, fl, nleaf=NLEAF):
    c = ch.pick(nleaf)
    if c == 0:
        return ast.Attribute(N(v), "x", L)
    if c == 1:
        return ast.Constant(k)
    if c == 2:
        return ast.Constant(s)
    if c == 3:
        return N(v)
    if c == 4:
        return ast.Constant(True)
    if c == 5:
        return ast.Constant(1.5)
    fl.none_const = True
    return ast.Constant(None)


def form(ch, f, v, deep, k, s, idx, fl, names=("value",)):
    """build form f over variable v; `deep()` builds the one distinguished operand, other operands are the leaf v.y"""
    other = lambda: ast.Attribute(N(v), "y", L)  # noqa
    if f == 0:
        return deep()
    if f == 1:
        return ast.UnaryOp(ast.USub(), deep())
    if f == 2:
        return ast.UnaryOp(ast.Not(), deep())
    if f == 3:
        op = [ast.Add, ast.Div, ast.Mult, ast.Mod][ch.pick(2 if fl.lite else 4)]()
        return ast.BinOp(deep(), op, other()) if ch.pick(2) == 0 else ast.BinOp(other(), op, deep())
    if f == 4:
        op = [ast.Gt, ast.Eq, ast.NotEq][ch.pick(1 if fl.lite else 3)]()
        return ast.Compare(deep(), [op], [other()]) if ch.pick(2) == 0 else ast.Compare(other(), [op], [deep()])
    if f == 5:
        op = [ast.And, ast.Or][ch.pick(1 if fl.lite else 2)]()
        return ast.BoolOp(op, [deep(), other()]) if ch.pick(2) == 0 else ast.BoolOp(op, [other(), other(), deep()])
    if f == 6:
        p = ch.pick(3)
        if p == 0:
            n = ast.IfExp(deep(), other(), other())
        elif p == 1:
            n = ast.IfExp(ast.Compare(other(), [ast.Gt()], [ast.Constant(1)]), deep(), other())
        else:
            n = ast.IfExp(ast.Compare(other(), [ast.Gt()], [ast.Constant(1)]), other(), deep())
        if fl.depth == 0:
            fl.ifexp.append((kind_of(n.body), kind_of(n.orelse)))
        else:
            fl.nested = True
        return n
    if f == 7:
        c = ch.pick(3)
        if c == 0:
            return ast.Tuple([deep(), other()], L)
        if c == 1:
            return ast.List([other(), deep()], L)
        return ast.Tuple([deep()], L)
    if f == 8:
        fl.has_dict = True
        if ch.pick(2) == 0:
            return ast.Dict([ast.Constant(s), ast.Constant("b")], [deep(), other()])
        return ast.Dict([ast.Constant("a")], [deep()])
    if f == 9:
        c = ch.pick(4)
        nm = names[ch.pick(len(names))]
        if c == 0:    # method with positional and keyword argument
            return ast.Call(ast.Attribute(N(v), nm, L), [deep()], [ast.keyword("kw", other())])
        if c == 1:    # keyword argument holds the operand
            return ast.Call(ast.Attribute(N(v), nm, L), [other()], [ast.keyword(nm, deep())])
        if c == 2:    # the operand is the receiver
            d = deep()
            if isinstance(d, ast.Dict):
                fl.may = True      # attribute of a dict literal: refused unless it is one of its keys
            return ast.Call(ast.Attribute(d, nm, L), [], [])
        return ast.Call(N("fn_" + nm), [deep(), other()], [])
    if f == 10:
        c = ch.pick(4)
        if c == 0:    # generic subscript with symbolic constant index (the operand may itself be a literal)
            d = deep()
            if fl.depth > 0:
                fl.nested = True
            elif isinstance(d, ast.Tuple):
                fl.tuple_index.append((len(d.elts), k, True))
            elif isinstance(d, ast.Dict):
                fl.may = True      # an int is never one of the (string) keys; refused when the dict's keys allow typing it
            return ast.Subscript(d, ast.Constant(k), L)
        if c == 1:    # index into a tuple literal (designed refusals: non-constant / out of range)
            n = ast.Subscript(ast.Tuple([deep(), other()], L), ast.Constant(idx), L)
            if fl.depth == 0:
                fl.tuple_index.append((2, idx, True))
            else:
                fl.nested = True
            return n
        if c == 2:    # key lookup in a dict literal (designed refusal: undefined key)
            fl.has_dict = True
            key = ["a", "zz"][ch.pick(2)]
            if fl.depth == 0:
                fl.dict_lookup.append(key == "a")
            else:
                fl.nested = True
            return ast.Subscript(ast.Dict([ast.Constant("a"), ast.Constant("b")], [deep(), other()]), ast.Constant(key), L)
        # non-constant index into a tuple literal; the operand is the index.  A constant operand of another type than int
        # ((a, b)['x'], (a, b)[None]) is not an expression Python can evaluate: outside the grammar, skipped.
        d = deep()
        if isinstance(d, ast.Constant):
            ch.bad = True
            raise BadPick()
        n = ast.Subscript(ast.Tuple([other(), other()], L), d, L)
        if fl.depth == 0:
            fl.tuple_index.append((2, None, False))
        else:
            fl.nested = True
        return n
    if f == 11:
        c = ch.pick(2)
        if c == 0:
            nm = names[ch.pick(len(names))]
            d = deep()
            if isinstance(d, ast.Dict):
                fl.may = True
            return ast.Attribute(d, nm, L)
        fl.has_dict = True
        key = ["a", "zz"][ch.pick(2)]
        if fl.depth == 0:
            fl.dict_lookup.append(key == "a")
        else:
            fl.nested = True
        return ast.Attribute(ast.Dict([ast.Constant("a"), ast.Constant("b")], [deep(), other()]), key, L)
    # f == 12: nested lambda as an argument of a method call; the operand lives in the inner lambda's body
    w = ["j", v][ch.pick(2)]       # inner parameter new or shadowing the outer one
    fl.depth += 1
    d = deep()
    fl.depth -= 1
    inner = ast.Lambda(ast.arguments([], [ast.arg(w)], None, [], [], None, []), ast.BinOp(ast.Attribute(N(w), "pt", L), ast.Add(), d))
    return ast.Call(ast.Attribute(ast.Attribute(N(v), "js", L), ["Select", "apply", "Where"][ch.pick(2 if fl.lite else 3)], L), [inner], [])


def gen(ch, k, s, idx, fl, npool, full_leaves):
    """root form x position x child form x first leaf; the attribute/function name pool varies at the child.
    full_leaves False: all 7 leaf kinds only directly under the root (child form 0), the attribute leaf e.x under other child forms"""
    f = ch.pick(NFORMS)
    g = ch.pick(NFORMS)
    nleaf = NLEAF if (full_leaves or g == 0) else 1
    return form(ch, f, "e", lambda: form(ch, g, "e", lambda: leaf(ch, "e", k, s, fl, nleaf), k, s, idx, fl, NAMES[:npool]), k, s, idx, fl)


def verdict(op, body, fl, k, idx):
    """-> (must_pass, may_refuse): what the statement allows for this input"""
    may = False
    must_refuse = False
    if fl.none_const:
        must_refuse = True
    for a, b in fl.ifexp:
        if a == b and a != "dict" and a != "cond" and a != "mixed":
            continue
        if a in ("num", "any") and b in ("num", "any"):
            continue
        may = True
    for arity, i, is_const in fl.tuple_index:
        if not is_const:
            may = True
        elif i >= arity or i < -arity:
            must_refuse = True
    for defined in fl.dict_lookup:
        if not defined:
            must_refuse = True
    if fl.nested or fl.may:
        may = True
    if op == 2:
        root = body
        boolean_root = isinstance(root, (ast.Compare, ast.BoolOp)) or (isinstance(root, ast.UnaryOp) and isinstance(root.op, ast.Not))
        if not boolean_root:
            may = True
    return must_refuse, may


def run_one(op, picks, k, s, idx, npool, full_leaves):
    fl = Flags()
    fl.lite = not full_leaves
    ch = Ch(picks)
    try:
        body = gen(ch, k, s, idx, fl, npool, full_leaves)
    except BadPick:
        return None, None, None
    if ch.bad or any_left(ch, picks):
        return None, None, None
    lam = ast.Lambda(ast.arguments([], [ast.arg("e")], None, [], [], None, []), body)
    return lam, fl, ch


def clone(n):
    "fresh tree sharing the leaf objects (so symbolic leaves compare by identity)"
    if isinstance(n, ast.AST):
        return type(n)(**{f: clone(getattr(n, f)) for f in n._fields if hasattr(n, f)})
    if isinstance(n, list):
        return [clone(x) for x in n]
    return n


def any_left(ch, picks):
    "unused picks must be 0 so that every skeleton is produced by exactly one pick vector"
    for j in range(ch.i, len(picks)):
        if picks[j] != 0:
            return True
    return False


def check(op, picks, k, kb, s, idx, npool=6, full_leaves=True):
    # an integer constant that a refusal's message may render (ast.dump / ast.unparse in the ValueError text) is bounded to one
    # digit, otherwise CrossHair enumerates its digits; everywhere else it is unbounded
    if op == 2 or picks[0] == 10 or picks[1] == 10:
        k = kb
    # dictionary keys / string constants come from a small table of interesting strings (a fully symbolic key is realised character by
    # character inside dataclasses.make_dataclass and in refusal messages); '' when the symbolic string is none of the entries
    t = ""
    for j, cand in enumerate(STRS):
        if s == cand:
            t = cand
    s = t
    lam, fl, ch = run_one(op, picks, k, s, idx, npool, full_leaves)
    if lam is None:
        return ""
    with nt():
        ref = clone(lam)
    must_refuse, may_refuse = verdict(op, lam.body, fl, k, idx)
    tick()
    ds = UDS()
    try:
        if op == 0:
            st = ds.Select(lam)
        elif op == 1:
            st = ds.SelectMany(lam)
        else:
            st = ds.Where(lam)
    except ValueError as e:
        if must_refuse or may_refuse:
            return ""
        return "ValueError for an expression outside the designed refusals: %s [%s]" % (e, dump(ref.body)[:200])
    except Exception as e:
        return "internal error %s: %s [%s]" % (type(e).__name__, e, dump(ref.body)[:200])
    if must_refuse:
        return "no ValueError although a designed refusal applies [%s]" % dump(ref.body)[:200]
    q = st.query_ast
    if not (isinstance(q, ast.Call) and isinstance(q.func, ast.Name) and q.func.id == OPS[op] and len(q.args) == 2):
        return "operator node malformed"
    if not same_fast(q.args[1], ref):
        return "emitted lambda differs from the one passed: " + dump(q.args[1])[:300]
    return ""


def decode(code):
    """partition code -> (operator, root form, child form or -1 = any).  0..168: Select with root=code//13, child=code%13;
    169..194: SelectMany / Where with the 13 root forms over a leaf child; (thorough) 195..532: SelectMany / Where with every child"""
    for c in range(max(LO, 0), min(HI, 533)):
        if code == c:
            if c < 169:
                return 0, c // 13, c % 13
            if c < 195:
                return 1 + (c - 169) // 13, (c - 169) % 13, 0
            c -= 195
            return 1 + c // 169, (c % 169) // 13, c % 13
    return -1, -1, -1


QUICK_CHILDREN = [0, 1, 4, 7, 8, 9, 10, 12]


def decode_quick(code):
    "0..103: Select, root = code // 8, child = QUICK_CHILDREN[code % 8]; 104..116: Where with the 13 roots over a leaf"
    for c in range(max(LO, 0), min(HI, 117)):
        if code == c:
            if c < 104:
                return 0, c // 8, QUICK_CHILDREN[c % 8]
            return 2, (c - 104) % 13, 0
    return -1, -1, -1


def c10(code: int, c3: int, c4: int, c5: int, c6: int, c7: int, c8: int, c9: int, k: int, kb: int, s: str, idx: int) -> str:
    """
    pre: LO <= code < HI and 0 <= code < 117 and -9 <= kb <= 9
    pre: 0 <= c3 <= 6 and 0 <= c4 <= 6 and 0 <= c5 <= 6 and 0 <= c6 <= 6 and 0 <= c7 <= 6 and 0 <= c8 <= 3 and 0 <= c9 <= 3
    pre: len(s) <= 2 and -3 <= idx <= 3
    post: (_ == '') != TWIN
    """
    op, f, g = decode_quick(code)
    if op < 0:
        return ""
    return check(op, [f, g, c3, c4, c5, c6, c7, c8, c9], k, kb, s, idx, 2, False)


def c10t(code: int, c3: int, c4: int, c5: int, c6: int, c7: int, c8: int, c9: int, k: int, kb: int, s: str, idx: int) -> str:
    """
    pre: LO <= code < HI and 0 <= code < 195 and -9 <= kb <= 9
    pre: 0 <= c3 <= 7 and 0 <= c4 <= 7 and 0 <= c5 <= 7 and 0 <= c6 <= 7 and 0 <= c7 <= 7 and 0 <= c8 <= 7 and 0 <= c9 <= 7
    pre: len(s) <= 2 and -3 <= idx <= 3
    post: (_ == '') != TWIN
    """
    op, f, g = decode(code)
    if op < 0:
        return ""
    return check(op, [f, g, c3, c4, c5, c6, c7, c8, c9], k, kb, s, idx, 6, True)
