"""Concrete side of C20: the same query built three ways (callable / source string / ast) and hashed in different processes."""
import ast
import sys

from func_adl import EventDataset
from func_adl.ast.ast_hash import calc_ast_hash


class DS(EventDataset):
    async def execute_result_async(self, a, title=None):
        return a


def builds():
    ds = DS()
    out = []
    a = ds.Select(
        lambda e: e.jets
    ).Where(
        lambda js: js.Count() > 2
    )
    b = ds.Select("lambda e: e.jets").Where("lambda js: js.Count() > 2")
    c = ds.Select(ast.parse("lambda e:   e.jets").body[0].value).Where(ast.parse("lambda js: (js.Count()>2)").body[0].value)
    out.append(("callable/string/ast", [a, b, c]))
    a = ds.SelectMany(
        lambda e: e.jets
    ).Select(
        lambda j: (j.pt, "a'λ", 1.5)
    ).AsAwkwardArray(["c"])
    b = ds.SelectMany("lambda e: e.jets").Select("lambda j: (j.pt, \"a'λ\", 1.5)").AsAwkwardArray("c")
    out.append(("terminal + unicode constant", [a, b]))
    a = ds.QMetaData({"k": 1}).Select("lambda e: e.x")
    b = ds.Select("lambda e: e.x")
    out.append(("query metadata ignored", [a, b]))
    return out


def hashes():
    return [[calc_ast_hash(s.query_ast) for s in group] for _, group in builds()]


if __name__ == "__main__":
    import json
    print("HASHES " + json.dumps(hashes()))
