"""C06 (constructors): dataclass / NamedTuple constructor calls lower to dictionaries binding arguments as Python does."""
import ast
import inspect
from dataclasses import dataclass, field
from typing import NamedTuple

from func_adl.ast.syntatic_sugar import resolve_syntatic_sugar

from vlib.sh.common import HI, LO, TWIN, L, attr, const, dump, lam, name, nt, pick, same_fast, tick


@dataclass
class D1:
    a: int


@dataclass
class D2:
    a: int
    b: int = 2


@dataclass
class D3:
    x: int
    y: int
    z: int = 0


@dataclass
class D4:
    p: int
    q: int
    r: int
    s: int


@dataclass
class D5:
    "a derived field that is not a constructor parameter sits between two that are"
    x: int
    r: int = field(init=False, default=0)
    y: int = 0


@dataclass
class D6:
    "a keyword-only field declared before a positional one"
    a: int
    k: int = field(kw_only=True, default=5)
    b: int = 1


class N1(NamedTuple):
    a: int


class N2(NamedTuple):
    a: int
    b: int


class N3(NamedTuple):
    x: int
    y: int = 1
    z: int = 2


class N4(NamedTuple):
    p: int
    q: int
    r: int
    s: int


CLASSES = [D1, D2, D3, D4, N1, N2, N3, N4, D5, D6]
PERMS = {0: [()], 1: [(0,)], 2: [(0, 1), (1, 0)], 3: [(0, 1, 2), (2, 1, 0), (1, 0, 2), (0, 2, 1), (1, 2, 0), (2, 0, 1)],
         4: [(0, 1, 2, 3), (3, 2, 1, 0), (1, 0, 3, 2), (2, 3, 0, 1)]}


def fields_of(cls):
    return [p for p in inspect.signature(cls).parameters]


def c06b(code: int, npos: int, kwmask: int, perm: int, extra: int, v0: int, v1: int, v2: int, v3: int) -> str:
    """
    pre: LO <= code < HI and 0 <= code < 30
    pre: 0 <= npos <= 5 and 0 <= kwmask < 16 and 0 <= perm < 6 and 0 <= extra <= 2
    post: (_ == '') != TWIN
    """
    code = pick(code, max(LO, 0), min(HI, 30))
    cls = CLASSES[code % 10]
    inside = code // 10          # 0: top of a lambda body, 1: nested in a tuple inside an inner lambda, 2: the same call node OBJECT used twice (as after inlining a helper that mentions its parameter twice)
    names = fields_of(cls)
    n = len(names)
    # range checks first (one solver-decided branch each), then case splits inside the narrowed ranges: no path is spent on a combination that is filtered out
    if kwmask >= (1 << n) or npos > n + 1:
        return ""
    npos, kwmask = pick(npos, 0, n + 2), pick(kwmask, 0, 1 << n)
    # a keyword that names a field already bound positionally is a surplus argument (Python: "multiple values for argument")
    kwidx = [i for i in range(n) if (kwmask >> i) & 1]
    if perm >= len(PERMS[len(kwidx)]):
        return ""
    perm, extra = pick(perm, 0, len(PERMS[len(kwidx)])), pick(extra, 0, 3)
    kwidx = [kwidx[i] for i in PERMS[len(kwidx)][perm]]
    vals = [v0, v1, v2, v3, v0 + v1]
    args = [ast.Constant(vals[i]) for i in range(npos)]
    kws = [ast.keyword(names[i], ast.Constant(vals[i])) for i in kwidx]
    if extra == 1:
        kws.append(ast.keyword("nosuchfield", ast.Constant(7)))
    if extra == 2 and npos > 0:
        # the last positional argument arrives as *(v,): how many fields it fills is not known when the query is built - a malformed use
        args[-1] = ast.Starred(ast.Tuple([args[-1]], L), L)
    unknown = extra == 1 or (extra == 2 and npos > 0)
    expect = None
    try:
        ba = inspect.signature(cls).bind_partial(*[vals[i] for i in range(npos)], **{names[i]: vals[i] for i in kwidx})
        if not unknown:
            expect = dict(ba.arguments)
    except TypeError:
        expect = None       # surplus positional arguments, or an argument Python's constructor does not accept this way
    ctor = ast.Call(ast.Constant(cls), args, kws)
    if inside == 0:
        q = lam("e", ctor)
    elif inside == 2:
        q = lam("e", ast.Tuple([ctor, ctor], L))
    else:
        q = lam("e", ast.Call(ast.Attribute(attr("e", "js"), "Select", L), [lam("j", ast.Tuple([ctor, attr("j", "pt")], L))], []))
    tick()
    try:
        r = resolve_syntatic_sugar(q)
    except ValueError as e:
        if expect is None:
            return ""
        return "ValueError for a constructor call Python accepts: %s" % e
    except Exception as e:
        return "raised %s: %s" % (type(e).__name__, e)
    if expect is None:
        return "no ValueError for surplus / unknown arguments"
    with nt():
        dicts = [x for x in ast.walk(r) if isinstance(x, ast.Dict)]
        calls = [x for x in ast.walk(r) if isinstance(x, ast.Call) and isinstance(x.func, ast.Constant)]
    if calls:
        return "constructor call left in the query"
    if len(dicts) != (2 if inside == 2 else 1):
        return "expected exactly one dictionary per constructor call"
    d = dicts[0]
    if inside == 2 and not same_fast(dicts[0], dicts[1]):
        return "the same constructor call lowered differently at its second use"
    got = {}
    for k, v in zip(d.keys, d.values):
        if not isinstance(k, ast.Constant) or not isinstance(k.value, str) or not isinstance(v, ast.Constant):
            return "malformed dictionary entry"
        if k.value in got:
            return "field %s bound twice" % k.value
        got[k.value] = v.value
    for f in expect:
        if f not in got:
            return "argument for field %s lost: %s" % (f, dump(d)[:200])
        if not (got[f] is expect[f] or got[f] == expect[f]):
            return "field %s bound to another argument: %s" % (f, dump(d)[:200])
    for f in got:
        if f not in expect:
            return "field %s invented" % f
    return ""
