"""C20: calc_ast_hash on pairs (A, B) where B is derived from A by a symbolic relation."""
import ast
import copy

from func_adl.ast.ast_hash import calc_ast_hash

from vlib.sh.common import HI, LO, TWIN, L, attr, call, const, lam, mcall, name, nt, pick, tick

# one representative per class: ascii, quote, backslash, space, Latin-1 above 0x7f, above 0xff, astral, digit
ALPH = ["a", "'", "\\", " ", "\xe9", "λ", "\U0001d11e", "1"]
FLOATS = [0.5, 1.0, 1e22, 5e-324]
NSHAPES = 9
NKINDS = 4
NEDITS = 14


def leaf_value(kind, ci, s0, s1, sn):
    if kind == 0:
        return ci - 2                      # int in [-2, 2]
    if kind == 1:
        return ci % 2 == 0                 # bool
    if kind == 2:
        return "".join([ALPH[s0], ALPH[s1]][:sn])
    return FLOATS[ci % 4]


def build(shape, c, v):
    leaf = ast.Constant(c)
    at = ast.Attribute(ast.Name(v, L), "pt", L)
    if shape == 0:
        body = ast.BinOp(at, ast.Add(), leaf)
    elif shape == 1:
        body = ast.Compare(at, [ast.Gt()], [leaf])
    elif shape == 2:
        body = ast.Tuple([at, leaf], L)
    elif shape == 3:
        body = ast.Call(ast.Attribute(ast.Name(v, L), "f", L), [leaf, at], [ast.keyword("k", ast.Constant(1))])
    elif shape == 4:
        body = ast.Dict([ast.Constant("k")], [ast.IfExp(ast.Compare(at, [ast.Lt()], [ast.Constant(2)]), leaf, at)])
    elif shape == 8:    # variable-length lists nested in each other: a or (b and c) or <leaf>;  f(a=g(b=1), c=<leaf>)
        inner = ast.BoolOp(ast.And(), [attr(v, "b"), attr(v, "c")])
        g = ast.Call(ast.Name("g", L), [], [ast.keyword("b", ast.Constant(1))])
        body = ast.Tuple([ast.BoolOp(ast.Or(), [attr(v, "a"), inner, leaf]), ast.Call(ast.Name("f", L), [], [ast.keyword("a", g), ast.keyword("c", ast.Constant(2))])], L)
    elif shape == 6:    # an optional child slot: slice with a lower bound only
        body = ast.Subscript(attr(v, "js"), ast.Slice(leaf, None, None), L)
    elif shape == 7:    # a lambda parameter with a default value
        inner = ast.Lambda(ast.arguments([], [ast.arg("j"), ast.arg("k")], None, [], [], None, [leaf]), ast.BinOp(attr("j", "pt"), ast.Add(), ast.Name("k", L)))
        body = mcall(attr(v, "js"), "Select", inner)
    else:
        body = mcall(attr(v, "js"), "Select", lam("j", ast.BoolOp(ast.And(), [ast.Compare(attr("j", "pt"), [ast.Gt()], [leaf]), attr("j", "ok")])))
    op = "Where" if shape == 1 else "Select"
    return call(op, call("EventDataset"), lam(v, body))


def find_leaf(q, c):
    for n in ast.walk(q):
        if isinstance(n, ast.Constant) and n.value is c:
            return n
    raise AssertionError("leaf not found")


class _Swap(ast.NodeTransformer):
    "replace node `old` (by identity) by `new`"

    def __init__(self, old, new):
        self.old, self.new = old, new

    def visit(self, node):
        if node is self.old:
            return self.new
        return self.generic_visit(node)


def edit(q, c, kind):
    "single edit of q in place; returns False when this edit kind does not apply to q"
    leafn = find_leaf(q, c)
    if kind == 0:     # constant value
        if isinstance(c, bool):
            leafn.value = not c
        elif isinstance(c, str):
            leafn.value = c + "a"
        else:
            leafn.value = c + 1
        return True
    if kind == 1:     # constant type, equal value under ==
        if isinstance(c, bool):
            leafn.value = int(c)
        elif isinstance(c, int):
            leafn.value = float(c)
        elif isinstance(c, float):
            if c != int(c) or abs(c) > 1e15:
                return False
            leafn.value = int(c)
        else:
            try:
                leafn.value = c.encode("ascii")
            except UnicodeEncodeError:
                return False
        return True
    if kind == 2:     # a name (binder and its uses are different names now)
        for n in ast.walk(q):
            if isinstance(n, ast.arg):
                n.arg = n.arg + "_"
                return True
        return False
    if kind == 3:     # an operator
        for n in ast.walk(q):
            if isinstance(n, ast.BinOp):
                n.op = ast.Sub()
                return True
            if isinstance(n, ast.Compare):
                n.ops = [ast.GtE()]
                return True
            if isinstance(n, ast.BoolOp):
                n.op = ast.Or()
                return True
        return False
    if kind == 4:     # argument / element order
        for n in ast.walk(q):
            if isinstance(n, (ast.Tuple,)) and len(n.elts) == 2:
                n.elts.reverse()
                return True
            if isinstance(n, ast.Call) and isinstance(n.func, ast.Attribute) and len(n.args) == 2:
                n.args.reverse()
                return True
        # the two arguments of the outer operator
        q.args.reverse()
        return True
    if kind == 5:     # nesting: wrap the leaf in a one-element tuple
        _Swap(leafn, ast.Tuple([leafn], L)).visit(q)
        return True
    if kind == 6:     # attribute name
        for n in ast.walk(q):
            if isinstance(n, ast.Attribute):
                n.attr = n.attr + "x"
                return True
        return False
    if kind == 7:     # the outer operator's name
        q.func.id = "SelectMany"
        return True
    if kind == 8:     # letter case of an attribute name
        for n in ast.walk(q):
            if isinstance(n, ast.Attribute):
                n.attr = n.attr.swapcase()
                return True
        return False
    if kind == 9:     # a number and the string of its digits / a string with a trailing blank
        if isinstance(c, bool):
            leafn.value = str(c)
        elif isinstance(c, (int, float)):
            leafn.value = repr(c)
        else:
            leafn.value = c + " "
        return True
    if kind == 11:    # one non-ASCII character replaced by another one (or appended when the leaf has none)
        if isinstance(c, str):
            swap = {"\xe9": "\u03bb", "\u03bb": "\xe9", "\U0001d11e": "\u03bb"}
            new = "".join(swap.get(ch, ch) for ch in c)
            leafn.value = new if new != c else c + "\u03bb"
            other = find_twin(q, c)
            return True
        for n in ast.walk(q):
            if isinstance(n, ast.Attribute):
                n.attr = n.attr + "\u03bb"
                return True
        return False
    if kind == 13:    # the last element of an outer list moves to the end of the inner list before it: a or (b and c) or d -> a or (b and c and d); f(a=g(b=1), c=2) -> f(a=g(b=1, c=2))
        for n in ast.walk(q):
            if isinstance(n, ast.BoolOp) and len(n.values) == 3 and isinstance(n.values[1], ast.BoolOp):
                n.values[1].values.append(n.values.pop())
                return True
        return False
    if kind == 12:    # the same child in another optional slot: x[c:] / x[:c], lambda j, k=c / lambda j, *, k=c
        for n in ast.walk(q):
            if isinstance(n, ast.Slice) and n.upper is None and n.lower is not None:
                n.lower, n.upper = None, n.lower
                return True
            if isinstance(n, ast.Lambda) and len(n.args.defaults) == 1 and not n.args.kwonlyargs:
                n.args.kwonlyargs, n.args.kw_defaults = [n.args.args.pop()], [n.args.defaults.pop()]
                return True
        return False
    # kind 10: which of two arguments carries the keyword (positional vs keyword argument)
    for n in ast.walk(q):
        if isinstance(n, ast.Call) and n.keywords and n.args:
            kw = n.keywords[0]
            n.keywords = [ast.keyword(kw.arg, n.args[-1])]
            n.args = n.args[:-1] + [kw.value]
            return True
    return False


def find_twin(q, c):
    return None


def same(a, b):
    if type(a) is not type(b):
        return False
    if isinstance(a, ast.AST):
        return all(same(getattr(a, f, None), getattr(b, f, None)) for f in a._fields)
    if isinstance(a, list):
        return len(a) == len(b) and all(same(x, y) for x, y in zip(a, b))
    return a == b and repr(a) == repr(b)


def c20(code: int, ci: int, s0: int, s1: int, sn: int, rel: int, ek: int, bn: int) -> str:
    """
    pre: LO <= code < HI and 0 <= code < 36
    pre: 0 <= ci <= 4 and 0 <= s0 < 8 and 0 <= s1 < 8 and 0 <= sn <= 1
    pre: 0 <= rel <= 6 and 0 <= ek < 14 and 0 <= bn <= 1
    post: (_ == '') != TWIN
    """
    return body(code, ci, s0, s1, sn, rel, ek, bn)


def c20t(code: int, ci: int, s0: int, s1: int, sn: int, rel: int, ek: int, bn: int) -> str:
    """
    pre: LO <= code < HI and 0 <= code < 36
    pre: 0 <= ci <= 4 and 0 <= s0 < 8 and 0 <= s1 < 8 and 0 <= sn <= 2
    pre: 0 <= rel <= 6 and 0 <= ek < 14 and 0 <= bn <= 1
    post: (_ == '') != TWIN
    """
    return body(code, ci, s0, s1, sn, rel, ek, bn)


def body(code, ci, s0, s1, sn, rel, ek, bn):
    code = pick(code, max(LO, 0), min(HI, NSHAPES * NKINDS))
    shape, kind = code // NKINDS, code % NKINDS
    if kind == 2:
        ci = 0
        sn = pick(sn, 0, 3)
        s0 = pick(s0, 0, 8) if sn >= 1 else 0
        s1 = pick(s1, 0, 8) if sn >= 2 else 0
    else:
        ci = pick(ci, 0, 5)
        s0 = s1 = sn = 0
    rel = pick(rel, 0, 7)
    ek = pick(ek, 0, NEDITS) if rel in (3, 4) else 0
    bn = pick(bn, 0, 2) if rel == 0 else 0
    c = leaf_value(kind, ci, s0, s1, sn)
    with nt():
        A = build(shape, c, "x")
        expect_same = None
        if rel == 0:      # independent rebuild with another (or the same) binder name
            B = build(shape, c, ["x", "y"][bn])
        elif rel == 1:    # text round trip (formatting, source positions)
            B = ast.parse("(  " + ast.unparse(A) + "\n)", mode="eval").body
        elif rel == 2:    # non-field annotations
            B = copy.deepcopy(A)
            B.lineno, B.col_offset = 7, 3
            B._q_metadata = {"k": c}
            B.args[0]._func_adl_executor = print
            find_leaf(B, c)._whatever = object()
            for k_, n_ in enumerate(ast.walk(B)):       # the references EventDataset hangs on its node - here on every node, each with its own object
                n_._eds_object = object()
                if k_ % 2:
                    n_._func_adl_executor = (lambda a, title=None: a)
            expect_same = True
        elif rel == 5:    # B is a shallow copy of A's top node with one argument replaced (what QMetaData / the metadata cleaner do)
            B = copy.copy(A)
            other = build(shape, c, "x")
            other.args[1].body = ast.Tuple([other.args[1].body, ast.Constant(0)], L)
            B.args = [A.args[0], other.args[1]]
        elif rel == 6:    # A itself is edited in place between two hash computations
            B = None
        else:             # one edit (rel 3) / the same edit on both (rel 4)
            B = copy.deepcopy(A)
            if not edit(B, c, ek):
                return ""
            if rel == 4:
                A = copy.deepcopy(A)
                edit(A, c, ek)
            elif ek == 11:
                # make the pair differ ONLY in which non-ASCII character is used
                A = copy.deepcopy(A)
                if isinstance(c, str):
                    if not any(ord(ch) > 127 for ch in c):
                        find_leaf(A, c).value = c + "\xe9"
                else:
                    for n in ast.walk(A):
                        if isinstance(n, ast.Attribute):
                            n.attr = n.attr + "\xe9"
                            break
        structurally_same = same(A, B) if B is not None else False
        if expect_same is not None and structurally_same != expect_same:
            return "harness error: relation %d did not produce the intended pair" % rel
    tick()
    try:
        if B is None:
            ha = calc_ast_hash(A)
            ha2 = calc_ast_hash(A)
            with nt():
                find_leaf(A, c).value = (c + "z") if isinstance(c, str) else ((not c) if isinstance(c, bool) else (-c if isinstance(c, float) else c + 1))
            hb = calc_ast_hash(A)
            if ha == hb and ha == ha2:
                return "hash did not change after the tree was edited in place"
            return "" if ha == ha2 else "hash not reproducible"
        ha, hb = calc_ast_hash(A), calc_ast_hash(B)
        ha2 = calc_ast_hash(A)
    except Exception as e:
        return "raised %s: %s" % (type(e).__name__, e)
    if not isinstance(ha, str) or ha != ha2:
        return "hash not reproducible"
    if structurally_same and ha != hb:
        return "structurally identical queries hash differently"
    if not structurally_same and ha == hb:
        return "different queries hash equally (relation %d, edit %d)" % (rel, ek)
    return ""
