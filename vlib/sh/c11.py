"""C11: streams are immutable values - symbolic histories of derive/execute operations over a forest of streams."""
import ast
from typing import Iterable

from func_adl import EventDataset, func_adl_callback

from vlib.sh.common import HI, LO, TWIN, nt, pick, snap, tick


CB_STREAMS = []      # streams a callback has created and kept a reference to: they are live streams like any other


def cb_keep(s, a):
    r = s.MetaData({"cb": 1})
    with nt():
        CB_STREAMS.append((r, (snap(r.query_ast), r.item_type)))      # observed when it was created
    return r, a


class Jet:
    @func_adl_callback(cb_keep)
    def pt(self, scale: int = 1) -> float: ...  # noqa
    def eta(self) -> float: ...  # noqa


class Evt:
    def Jets(self, name: str = "def") -> Iterable[Jet]: ...  # noqa
    def met(self) -> float: ...  # noqa


class TDS(EventDataset[Evt]):
    def __init__(self):
        super().__init__(Evt)

    async def execute_result_async(self, a, title=None):
        return a


class UDS(EventDataset):
    async def execute_result_async(self, a, title=None):
        return a


def P(s):
    return ast.parse(s).body[0].value


# Python callables handed to the operators (their source is recovered from THIS file by the library): the same function object is
# used by every step of a history, on streams of different item types (on the typed dataset the follower fills in declared defaults).
def Select(f):
    "the library finds a lambda's source among the arguments of calls named like the operator it was handed to"
    return f


SHARED_SEL = Select(lambda e: e.Jets().Select(lambda j: j.pt()))


def shared_cut(e): return e.Jets().Count() > 1  # noqa: E704


QOPS = [0, 1, 2, 3, 5, 11]           # operation kinds of the quick tier
TOPS = [0, 1, 2, 3, 4, 5, 6, 7, 8, 9, 10, 11]


def run(st):
    c = st.value_async()
    try:
        c.send(None)
    except StopIteration as e:
        return e.value
    return None


def step(par, o, v, lams):
    "apply operation o to stream par; returns the new stream (or par itself for an execution)"
    typed = par.item_type is Evt
    if o == 0:     # Select; the lambda AST objects are shared between all steps of one history
        return par.Select(lams["tsel"])       # one ast.Lambda object for every step, whatever the item type of the stream it is used on
    if o == 1:
        return par.MetaData({})
    if o == 2:
        return par.MetaData({"a": 1})
    if o == 3:
        return par.QMetaData({"k": v})
    if o == 4:
        return par.AsAwkwardArray(["c"])
    if o == 5:
        run(par)
        return par
    if o == 6:
        return par.Where(lams["twh"])
    if o == 7:
        return par.SelectMany(lams["tsm"])
    if o == 8:     # Select with a constant from the history inside the lambda
        return par.Select(ast.Lambda(lams["sel"].args, ast.BinOp(lams["sel"].body, ast.Add(), ast.Constant(v))))
    if o == 10:    # Select with a Python lambda object shared by all steps (source recovery + capture rewriting + type following on the recovered AST)
        with nt():   # no symbolic value can reach this step (the operation code is case-split): run without the tracer's overhead (tokenizer!)
            return par.Select(SHARED_SEL)
    if o == 11:    # Where with a one-line def passed by name
        with nt():
            return par.Where(shared_cut)
    return par.Select(lams["dict"])


def history(k, ops, pars, vals):
    lams = {
        "sel": P("lambda e: e.x"), "wh": P("lambda e: e.x > 1"), "sm": P("lambda e: e.js"),
        "tsel": P("lambda e: e.Jets().Select(lambda j: j.pt())"), "twh": P("lambda e: e.Jets(name='a').Count() > 1"),
        "tsm": P("lambda e: e.Jets()"), "dict": P("lambda e: {'a': e.x, 'b': (e.y, 1)}"),
    }
    streams = [UDS(), TDS()]
    del CB_STREAMS[:]
    with nt():
        snaps = [(snap(s.query_ast), s.item_type) for s in streams]
    for i in range(k):
        par = streams[pars[i] % len(streams)]
        try:
            s = step(par, ops[i], vals[i], lams)
        except ValueError as e:
            if ops[i] in (10, 11):
                return "the shared Python function was refused: %s" % e
            continue   # a refused derivation (e.g. Where on a non-boolean) creates nothing - but must not have changed anything either
        finally:
            pass
        if s is not par:
            streams.append(s)
            with nt():
                snaps.append((snap(s.query_ast), s.item_type))
        with nt():
            # streams made (and kept) by a callback are observed like every other live stream - but never chosen as the parent of a later
            # step: inside a nested lambda the library hands the callback a stand-in stream that has no dataset to execute on
            watched = list(zip(streams, snaps)) + [(cs, sn) for cs, sn in CB_STREAMS]
            for si, (st, (sn, it)) in enumerate(watched):
                if snap(st.query_ast) != sn:
                    return "query AST of stream %d changed after step %d (op %d on stream %d)" % (si, i, ops[i], pars[i])
                if st.item_type != it:
                    return "item type of stream %d changed after step %d" % (si, i)
    return ""


def c11(code: int, o2: int, p0: int, p1: int, p2: int, v: int) -> str:
    """
    pre: LO <= code < HI and 0 <= code < 36
    pre: 0 <= o2 < 6 and 0 <= p0 <= 1 and 0 <= p1 <= 2 and 0 <= p2 <= 3
    post: (_ == '') != TWIN
    """
    code = pick(code, max(LO, 0), min(HI, 36))
    ops = [QOPS[code // 6], QOPS[code % 6], QOPS[pick(o2, 0, 6)]]
    pars = [pick(p0, 0, 2), pick(p1, 0, 3), pick(p2, 0, 4)]
    tick()
    try:
        return history(3, ops, pars, [v, v + 1, v])
    except Exception as e:
        return "raised %s: %s" % (type(e).__name__, e)


def c11t(code: int, o2: int, p0: int, p1: int, p2: int, v: int) -> str:
    """
    pre: LO <= code < HI and 0 <= code < 144
    pre: 0 <= o2 < 12 and 0 <= p0 <= 1 and 0 <= p1 <= 2 and 0 <= p2 <= 3
    post: (_ == '') != TWIN
    """
    code = pick(code, max(LO, 0), min(HI, 144))
    ops = [TOPS[code // 12], TOPS[code % 12], TOPS[pick(o2, 0, 12)]]
    pars = [pick(p0, 0, 2), pick(p1, 0, 3), pick(p2, 0, 4)]
    tick()
    try:
        return history(3, ops, pars, [v, v + 1, v])
    except Exception as e:
        return "raised %s: %s" % (type(e).__name__, e)


K4OPS = [0, 1, 3, 5, 11]


def c11k4(code: int, o3: int, p0: int, p1: int, p2: int, p3: int, v: int) -> str:
    """
    pre: LO <= code < HI and 0 <= code < 125
    pre: 0 <= o3 < 5 and 0 <= p0 <= 1 and 0 <= p1 <= 2 and 2 <= p2 <= 3 and 3 <= p3 <= 4
    post: (_ == '') != TWIN
    """
    code = pick(code, max(LO, 0), min(HI, 125))
    ops = [K4OPS[code // 25], K4OPS[(code // 5) % 5], K4OPS[code % 5], K4OPS[pick(o3, 0, 5)]]
    pars = [pick(p0, 0, 2), pick(p1, 0, 3), pick(p2, 2, 4), pick(p3, 3, 5)]      # the last two steps derive from one of the two newest streams
    tick()
    try:
        return history(4, ops, pars, [v, v + 1, v, v + 2])
    except Exception as e:
        return "raised %s: %s" % (type(e).__name__, e)
