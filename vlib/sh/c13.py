"""C13: Python values embedded in a query keep their exact value."""
import ast
from typing import List, Tuple, Union

from func_adl import EventDataset
from func_adl.util_ast import as_ast

from vlib.sh.common import HI, LO, TWIN, L, attr, call, const, lam, name, nt, pick, tick

# one representative per lexical class of CPython's tokenizer / of repr()
ALPH = ["'", '"', "\\", "\n", "\r", "\0", "a", "n", "x", "u", "N", "{", "(", "+", "#", " ", "λ", "\U0001d11e", "\t", "\x7f"]
NA = len(ALPH)
INTS = [0, 1, -1, 2 ** 63, -(2 ** 63) - 1, 10 ** 30, 255, -256]
FLOATS = [0.0, -0.0, 5e-324, 1e22, 0.1, 1.7976931348623157e308, -2.5, 1e-7, 123456789.125]


class DS(EventDataset):
    async def execute_result_async(self, a, title=None):
        return a


BASE = DS()

# (entry, kind) combinations; kinds: 0 str 1 int 2 float 3 bool 4 None 5 bytes 6 list 7 tuple 8 dict 9 nested 10 one-item tuple 11 one-item / empty tuples inside containers
ENTRIES = ["as_ast", "MetaData.value", "MetaData.key", "AsPandasDF.columns", "AsPandasDF.column", "AsROOTTTree.filename", "AsROOTTTree.treename",
           "AsROOTTTree.columns", "AsParquetFiles.filename", "AsParquetFiles.columns", "AsAwkwardArray.columns", "AsAwkwardArray.column"]
COMBOS = [(0, k) for k in range(12)] + [(1, k) for k in range(12)] + [(e, 0) for e in range(2, 12)]


def mkstr(idx, n):
    return "".join(ALPH[i] for i in idx[:n])


def value(kind, s, ki):
    k = INTS[ki % len(INTS)]
    if kind == 0:
        return s
    if kind == 1:
        return k
    if kind == 2:
        return FLOATS[ki % len(FLOATS)]
    if kind == 3:
        return ki % 2 == 0
    if kind == 4:
        return None
    if kind == 5:
        return s.encode("utf-8")
    if kind == 6:
        return [s, k]
    if kind == 7:
        return (k, None, True, s)
    if kind == 8:
        return {s: k, "q": s}
    if kind == 10:
        return (s,)
    if kind == 11:
        return [(k,), (), {"t": ((k,),)}]
    return {"a": [s, (s, FLOATS[ki % len(FLOATS)])], "b": {s: [None, False]}}


def equal_typed(a, b):
    if type(a) is not type(b):
        return False
    if isinstance(a, (list, tuple)):
        return len(a) == len(b) and all(equal_typed(x, y) for x, y in zip(a, b))
    if isinstance(a, dict):
        return list(a.keys()) == list(b.keys()) and all(equal_typed(a[k], b[k]) for k in a) and all(type(x) is type(y) for x, y in zip(a, b))
    if isinstance(a, float):
        return repr(a) == repr(b)
    return a == b


def embed(entry, v):
    "-> the AST node that must evaluate back to v"
    if entry == 0:
        return as_ast(v)
    if entry == 1:
        return BASE.MetaData({"m": v}).query_ast.args[1].values[0]
    if entry == 2:
        return BASE.MetaData({v: 1}).query_ast.args[1].keys[0]
    if entry == 3:
        return BASE.AsPandasDF([v, "x"]).query_ast.args[1].elts[0]
    if entry == 4:
        return BASE.AsPandasDF(v).query_ast.args[1].elts[0]
    if entry == 5:
        return BASE.AsROOTTTree(v, "tree", ["c"]).query_ast.args[3]
    if entry == 6:
        return BASE.AsROOTTTree("f.root", v, ["c"]).query_ast.args[2]
    if entry == 7:
        return BASE.AsROOTTTree("f.root", "t", ["c", v]).query_ast.args[1].elts[1]
    if entry == 8:
        return BASE.AsParquetFiles(v, ["c"]).query_ast.args[2]
    if entry == 9:
        return BASE.AsParquetFiles("f.pq", [v]).query_ast.args[1].elts[0]
    if entry == 10:
        return BASE.AsAwkwardArray([v, "x"]).query_ast.args[1].elts[0]
    return BASE.AsAwkwardArray(v).query_ast.args[1].elts[0]


def body_a(code, i0, i1, i2, n, ki, maxn):
    code = pick(code, max(LO, 0), min(HI, len(COMBOS)))
    entry, kind = COMBOS[code]
    uses_s = kind in (0, 5, 6, 7, 8, 9, 10)
    uses_k = kind in (1, 2, 3, 6, 7, 8, 9, 11)
    n = pick(n, 0, maxn + 1) if uses_s else 0
    idx = [pick(i0, 0, NA) if n >= 1 else 0, pick(i1, 0, NA) if n >= 2 else 0, pick(i2, 0, NA) if n >= 3 else 0]
    if uses_k and kind not in (1, 2) and ki >= 3:
        return ""   # container kinds use the first three table entries only
    ki = (pick(ki, 0, 9) if kind in (1, 2) else pick(ki, 0, 3)) if uses_k else 0
    with nt():
        v = value(kind, mkstr(idx, n), ki)
    tick()
    try:
        node = embed(entry, v)
    except Exception as e:
        return "%s(%r) raised %s: %s" % (ENTRIES[entry], v, type(e).__name__, e)
    with nt():
        try:
            back = ast.literal_eval(node)
        except Exception as e:
            return "%s(%r) is not a literal: %s" % (ENTRIES[entry], v, ast.dump(node)[:200])
        if not equal_typed(back, v):
            return "%s(%r) evaluates back to %r" % (ENTRIES[entry], v, back)
    return ""


def c13a(code: int, i0: int, i1: int, i2: int, n: int, ki: int) -> str:
    """
    pre: LO <= code < HI and 0 <= code < 34
    pre: 0 <= i0 < 20 and 0 <= i1 < 20 and 0 <= i2 < 20 and 0 <= n <= 2 and 0 <= ki < 9
    post: (_ == '') != TWIN
    """
    return body_a(code, i0, i1, i2, n, ki, 2)


def c13a3(code: int, i0: int, i1: int, i2: int, n: int, ki: int) -> str:
    """
    pre: LO <= code < HI and 0 <= code < 34
    pre: 0 <= i0 < 20 and 0 <= i1 < 20 and 0 <= i2 < 20 and 0 <= n <= 3 and 0 <= ki < 9
    post: (_ == '') != TWIN
    """
    return body_a(code, i0, i1, i2, n, ki, 3)


# ---------------------------------------------------------------- (b) values embedded as constants inside emitted lambdas
from typing import Iterable  # noqa: E402

from func_adl import func_adl_callable  # noqa: E402
from func_adl.util_ast import _rewrite_captured_vars, check_ast, global_getclosurevars  # noqa: E402


class Jet:
    def pt(self, a: int = 0) -> float: ...  # noqa


class Evt:
    def Jets(self, name: str = "d") -> Iterable[Jet]: ...  # noqa
    def met(self, scale: float = 1.0) -> float: ...  # noqa


@func_adl_callable()
def c13_fn(y: int = 3) -> float: ...  # noqa


class TDS(EventDataset[Evt]):
    def __init__(self):
        super().__init__(Evt)

    async def execute_result_async(self, a, title=None):
        return a


def _outer(cap):
    return lambda e: e.f(cap) + cap


G_CAP = 0


def _glob():
    return lambda e: e.g(G_CAP)


def Select(f):
    "the library finds a lambda's source among the arguments of calls named like the operator it was handed to"
    return f


def _outer_nested(cap):
    return Select(lambda e: e.jets.Select(lambda j: j.pt + cap))


G_TWICE = 0


def uses_global_twice(e): return e.met == G_TWICE  # noqa: E704


SRC_CLOSURE = ast.parse("lambda e: e.f(cap) + cap").body[0].value
OK_TYPES = (str, int, float, bool, complex, bytes)
Val = Union[int, bool, str, float, bytes]
# concrete stand-ins for the value kinds that cannot be sent as a scalar literal (their contents would be realised by the
# error-message formatting of the refusal path, so they are not symbolic); 1j is a legal scalar
import enum  # noqa: E402
import math  # noqa: E402


class Color(enum.IntEnum):
    red = 1


class Tag(str):
    def __repr__(self):
        return "<Tag %s>" % str.__str__(self)


# ... a module object, an IntEnum member and an instance of a str subclass are no scalars a backend could read either
ALT = [None, [1, "a"], (1, 2), {"a": 1}, 1j, {1}, object(), math, Color.red, Tag("loose")]


def is_ok(v):
    "a transportable scalar: a value of exactly one of the scalar types (symbolic stand-ins of CrossHair count by the type they stand for)"
    if type(v) in OK_TYPES:
        return True
    try:
        from crosshair.core import python_type
        from crosshair.util import CrossHairValue
        return isinstance(v, CrossHairValue) and python_type(v) in OK_TYPES
    except ImportError:
        return False


def consts(n):
    return [x for x in ast.walk(n) if isinstance(x, ast.Constant)]


def c13b(code: int, alt: int, v: Val) -> str:
    """
    pre: LO <= code < HI and 0 <= code < 7
    pre: 0 <= alt <= 10
    pre: not isinstance(v, str) or len(v) <= 3
    pre: not isinstance(v, bytes) or len(v) <= 3
    post: (_ == '') != TWIN
    """
    code = pick(code, max(LO, 0), min(HI, 7))
    alt = pick(alt, 0, 11)
    if alt > 0:
        v = ALT[alt - 1]
    tick()
    emitted = None
    want = 1
    try:
        if code == 0:      # declared default of a method, call site at depth 0
            Evt.met.__defaults__ = (v,)
            emitted = TDS().Select(ast.parse("lambda e: e.met()").body[0].value).query_ast.args[1]
        elif code == 1:    # declared default of a method, call site inside a nested lambda over a typed collection
            Jet.pt.__defaults__ = (v,)
            emitted = TDS().Select(ast.parse("lambda e: e.Jets().Select(lambda j: j.pt())").body[0].value).query_ast.args[1]
        elif code == 2:    # declared default of a registered function
            c13_fn.__defaults__ = (v,)
            emitted = TDS().Select(ast.parse("lambda e: c13_fn() + e.met(2.0)").body[0].value).query_ast.args[1]
        elif code == 3:    # captured closure variable (two occurrences)
            f = _outer(v)
            emitted = _rewrite_captured_vars(global_getclosurevars(f)).visit(ast.parse("lambda e: e.f(cap) + cap").body[0].value)
            check_ast(emitted)
            want = 2
        elif code == 5:    # the whole public path, real function object: closure variable used only inside the lambda of a nested Select on an untyped sequence
            emitted = DS().Select(_outer_nested(v)).query_ast.args[1]
        elif code == 6:    # the whole public path, the same function object used a second time after the global it reads has changed
            g = uses_global_twice.__globals__
            g["G_TWICE"] = 777
            DS().Where(uses_global_twice)
            g["G_TWICE"] = v
            emitted = DS().Where(uses_global_twice).query_ast.args[1]
        else:              # captured module global
            f = _glob()
            f.__globals__["G_CAP"] = v
            emitted = _rewrite_captured_vars(global_getclosurevars(f)).visit(ast.parse("lambda e: e.g(G_CAP)").body[0].value)
            check_ast(emitted)
    except ValueError as e:
        if is_ok(v):
            return "transportable value refused: %s" % e
        return ""
    except Exception as e:
        return "raised %s: %s" % (type(e).__name__, e)
    finally:
        Evt.met.__defaults__ = (1.0,)
        Jet.pt.__defaults__ = (0,)
        c13_fn.__defaults__ = (3,)
    cs = consts(emitted)
    for c in cs:
        if not is_ok(c.value):
            return "non-transportable constant in emitted lambda: " + type(c.value).__name__
    mine = [c for c in cs if c.value is v]
    if len(mine) < want:
        # accept an equal value of the same type (a copy), never a different one
        eq = 0
        for c in cs:
            same_type = True
            for t in (bool, int, float, str, bytes):
                if isinstance(c.value, t) != isinstance(v, t):
                    same_type = False
            if same_type and (c.value == v or (isinstance(v, float) and v != v and c.value != c.value)):    # a copy of NaN is NaN
                eq += 1
        if eq < want:
            return "embedded value missing or altered"
    return ""
