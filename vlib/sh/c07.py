"""C07: typed call sites are normalised to full positional form (symbolic call shape, argument and default values)."""
import ast
import inspect
from typing import Iterable, TypeVar

from func_adl import EventDataset, ObjectStream, func_adl_callable
from func_adl.type_based_replacement import register_func_adl_os_collection, remap_by_types

from vlib.sh.common import HI, LO, TWIN, L, attr, call, const, dump, lam, mcall, name, nt, pick, tick

NPOSN = 15


class Trk:
    # same method names as Jet, parameter names in another order
    def m1(self, c: int) -> float: ...  # noqa
    def m2(self, c: int, a: int) -> float: ...  # noqa
    def m3(self, c: int, b: int, a: int) -> float: ...  # noqa
    def q0(self) -> float: ...  # noqa


class Jet:
    def m1(self, a: int) -> float: ...  # noqa
    def m2(self, a: int, b: int) -> float: ...  # noqa
    def m3(self, a: int, b: int, c: int) -> float: ...  # noqa
    def Tracks(self) -> Iterable[Trk]: ...  # noqa


class Odd:
    "the receiver is not called self (legal python)"
    def m1(this, a: int) -> float: ...  # noqa
    def m2(this, a: int, b: int) -> float: ...  # noqa
    def m3(_, a: int, b: int, c: int) -> float: ...  # noqa


class Stat:
    "static methods: no receiver among the parameters; signatures that end in *rest / **opts"
    @staticmethod
    def m1(a: int) -> float: ...  # noqa
    @staticmethod
    def m2(a: int, b: int) -> float: ...  # noqa
    @staticmethod
    def m3(a: int, b: int, c: int) -> float: ...  # noqa


class Var:
    def m1(self, a: int, *rest: int) -> float: ...  # noqa
    def m2(self, a: int, b: int, **opts: int) -> float: ...  # noqa
    def m3(self, a: int, b: int, c: int, *rest: int, **opts: int) -> float: ...  # noqa


class Evt:
    def stat(self) -> Stat: ...  # noqa
    def var(self) -> Var: ...  # noqa
    def odd(self) -> Odd: ...  # noqa
    def m1(self, a: int) -> float: ...  # noqa
    def m2(self, a: int, b: int) -> float: ...  # noqa
    def m3(self, a: int, b: int, c: int) -> float: ...  # noqa
    def Jets(self) -> Iterable[Jet]: ...  # noqa


M = TypeVar("M")


@register_func_adl_os_collection
class Coll(ObjectStream[M]):
    def __init__(self, a, item_type):
        super().__init__(a, item_type)

    def t1(self, a: int) -> int: ...  # noqa
    def t2(self, a: int, b: int) -> int: ...  # noqa
    def t3(self, a: int, b: int, c: int) -> int: ...  # noqa


@func_adl_callable()
def fn1(a: int) -> float: ...  # noqa


@func_adl_callable()
def fn2(a: int, b: int) -> float: ...  # noqa


@func_adl_callable()
def fn3(a: int, b: int, c: int) -> float: ...  # noqa


@func_adl_callable()
def fs1(self: int) -> float: ...  # noqa    (a function: a parameter called self is a parameter like any other)


@func_adl_callable()
def fs2(self: int, b: int) -> float: ...  # noqa


@func_adl_callable()
def fs3(a: int, self: int, c: int) -> float: ...  # noqa


@func_adl_callable()
def lead(e: Evt, k: int = 1) -> Jet: ...  # noqa


@func_adl_callable()
def jets_of(e: Evt, name: str = "d") -> Iterable[Jet]: ...  # noqa


class TDS(EventDataset[Evt]):
    def __init__(self):
        super().__init__(Evt)

    async def execute_result_async(self, a, title=None):
        return a


OPS = ("Select", "Where", "SelectMany", "First", "Count")
PERMS = {0: [()], 1: [(0,)], 2: [(0, 1), (1, 0)], 3: [(0, 1, 2), (2, 1, 0), (1, 0, 2), (0, 2, 1), (1, 2, 0), (2, 0, 1)]}


def target(pos, n):
    "-> (callable whose signature governs the call site, method/function name)"
    if pos == 0:
        return getattr(Evt, "m%d" % n), "m%d" % n
    if pos in (1, 3):
        return getattr(Jet, "m%d" % n), "m%d" % n
    if pos == 2:
        return getattr(Trk, "m%d" % n), "m%d" % n
    if pos == 4:
        return getattr(Coll, "t%d" % n), "t%d" % n
    if pos in (7, 8):
        return getattr(Jet, "m%d" % n), "m%d" % n
    if pos == 9:
        return getattr(Odd, "m%d" % n), "m%d" % n
    if pos == 11:
        return getattr(Jet, "m%d" % n), "m%d" % n
    if pos == 14:
        return getattr(Jet, "m%d" % n), "m%d" % n
    if pos == 12:
        return getattr(Stat, "m%d" % n), "m%d" % n
    if pos == 13:
        return getattr(Var, "m%d" % n), "m%d" % n
    if pos == 10:
        return [fs1, fs2, fs3][n - 1], "fs%d" % n
    return [fn1, fn2, fn3][n - 1], "fn%d" % n


def is_method(pos):
    return pos not in (5, 6, 10, 12)


def site(pos, fname, args, kws):
    "-> (stream to start from, variable types, lambda body) containing one call site with the given arguments"
    if pos == 0:
        return TDS(), ast.Call(attr("e", fname), args, kws)
    if pos == 1:
        return TDS(), mcall(mcall(name("e"), "Jets"), "Select", lam("j", ast.Call(attr("j", fname), args, kws)))
    if pos == 2:
        inner = mcall(mcall(name("j"), "Tracks"), "Select", lam("j", ast.Call(attr("j", fname), args, kws)))
        return TDS(), mcall(mcall(name("e"), "Jets"), "Select", lam("j", inner))
    if pos == 3:
        with nt():
            s = TDS().Select(ast.parse("lambda e: {'j': e.Jets(), 'n': 1}").body[0].value)
        return s, mcall(attr("e", "j"), "Where", lam("j", ast.Compare(ast.Call(attr("j", fname), args, kws), [ast.Gt()], [const(0)])))
    if pos == 4:
        return TDS(), ast.Call(ast.Attribute(mcall(name("e"), "Jets"), fname, L), args, kws)
    if pos in (5, 10):
        return TDS(), ast.BinOp(ast.Call(name(fname), args, kws), ast.Add(), const(1))
    if pos == 9:
        return TDS(), ast.Call(ast.Attribute(mcall(name("e"), "odd"), fname, L), args, kws)
    if pos == 14:
        # the call site is on the outer variable AFTER a nested lambda that re-used its name for an object of another class
        first = mcall(mcall(mcall(name("j"), "Tracks"), "Select", lam("j", ast.Call(attr("j", "q0"), [], []))), "Count")
        return TDS(), mcall(mcall(name("e"), "Jets"), "Select", lam("j", ast.Subscript(ast.Tuple([first, ast.Call(attr("j", fname), args, kws)], L), const(1), L)))
    if pos in (12, 13):
        return TDS(), ast.Call(ast.Attribute(mcall(name("e"), "stat" if pos == 12 else "var"), fname, L), args, kws)
    if pos == 11:
        # the call site sits in a lambda that is handed to Where BY KEYWORD, inside the stream lambda; more typed call sites follow the Where
        w = ast.Call(ast.Attribute(mcall(name("e"), "Jets"), "Where", L), [], [ast.keyword("filter", lam("j", ast.Compare(ast.Call(attr("j", fname), args, kws), [ast.Gt()], [const(0)])))])
        return TDS(), mcall(w, "Count")
    if pos == 7:
        # the receiver is the result of a registered function whose own call has to be normalised (default omitted)
        return TDS(), ast.Call(ast.Attribute(ast.Call(name("lead"), [name("e")], []), fname, L), args, kws)
    if pos == 8:
        # ... and the call site sits in the lambda of a Select over a collection such a function returns
        return TDS(), mcall(ast.Call(name("jets_of"), [], [ast.keyword("e", name("e"))]), "Select", lam("j", ast.Call(attr("j", fname), args, kws)))
    inner = lam("j", ast.Compare(ast.Call(name(fname), args, kws), [ast.Gt()], [mcall(mcall(name("j"), "Tracks"), "Count")]))
    return TDS(), mcall(mcall(mcall(name("e"), "Jets"), "Where", inner), "Count")


def op_calls(n):
    out = []
    for x in ast.walk(n):
        if isinstance(x, ast.Call) and isinstance(x.func, ast.Attribute) and x.func.attr in OPS:
            # nothing may be added to or dropped from what the user wrote (a lambda given as filter=... may become positional: the operators are
            # methods of a class the follower knows, only their internal known_types parameter must never be filled in)
            out.append((x.func.attr, len(x.args) + len(x.keywords)))
    return sorted(out)


def c07(code: int, ndef: int, npos: int, kwmask: int, perm: int, v0: int, v1: int, v2: int, d0: int, d1: int, d2: int) -> str:
    """
    pre: LO <= code < HI and 0 <= code < 45
    pre: 0 <= ndef <= 3 and 0 <= npos <= 3 and 0 <= kwmask < 8 and 0 <= perm < 6
    post: (_ == '') != TWIN
    """
    code = pick(code, max(LO, 0), min(HI, NPOSN * 3))
    pos, n = code // 3, code % 3 + 1
    # range checks first (one solver-decided branch each), case splits afterwards: no path is spent on combinations that are filtered out
    if ndef > n or npos > n or kwmask >= (1 << n):
        return ""
    ndef, npos, kwmask = pick(ndef, 0, n + 1), pick(npos, 0, n + 1), pick(kwmask, 0, 1 << n)
    if kwmask & ((1 << npos) - 1):
        return ""
    func, fname = target(pos, n)
    pnames = [p.name for p in inspect.signature(func).parameters.values() if p.kind not in (p.VAR_POSITIONAL, p.VAR_KEYWORD)][1 if is_method(pos) else 0:]
    kwidx = [i for i in range(n) if (kwmask >> i) & 1]
    if perm >= len(PERMS[len(kwidx)]):
        return ""
    perm = pick(perm, 0, len(PERMS[len(kwidx)]))
    kwidx = [kwidx[i] for i in PERMS[len(kwidx)][perm]]
    vals = [v0, v1, v2]
    defaults = tuple([d0, d1, d2][n - ndef:n])
    args = [const(vals[i]) for i in range(npos)]
    kws = [ast.keyword(pnames[i], const(vals[i])) for i in kwidx]
    old_defaults = func.__defaults__
    func.__defaults__ = defaults if defaults else None
    try:
        # oracle: Python's own binding
        try:
            ba = inspect.signature(func).bind(*([None] if is_method(pos) else []) + [a.value for a in args], **{k.arg: k.value.value for k in kws})
            ba.apply_defaults()
            expect = [v for k, v in ba.arguments.items() if k not in ("rest", "opts")][1 if is_method(pos) else 0:]
        except TypeError:
            expect = None
        stream, body = site(pos, fname, args, kws)
        with nt():
            ops_before = op_calls(body)
        tick()
        try:
            _, r, _ = remap_by_types(stream, {"e": stream.item_type}, body)
        except ValueError as e:
            if expect is None:
                return ""
            return "ValueError for a call Python accepts: %s" % e
        except Exception as e:
            return "raised %s: %s" % (type(e).__name__, e)
        if expect is None:
            return "no ValueError although a required parameter is missing"
        with nt():
            found = [x for x in ast.walk(r) if isinstance(x, ast.Call) and ((isinstance(x.func, ast.Attribute) and x.func.attr == fname) or (isinstance(x.func, ast.Name) and x.func.id == fname))]
            ops_after = op_calls(r)
        if len(found) != 1:
            return "call site lost or duplicated"
        c = found[0]
        if len(c.keywords) != 0:
            return "keyword arguments left at the call site: " + dump(c)[:300]
        if len(c.args) != len(expect):
            return "expected %d positional arguments, found %d: %s" % (len(expect), len(c.args), dump(c)[:300])
        for a, e in zip(c.args, expect):
            if not isinstance(a, ast.Constant):
                return "argument is not a literal"
            if not (a.value is e or (isinstance(a.value, int) and a.value == e)):
                return "argument bound to the wrong parameter or wrong default: " + dump(c)[:300]
        if ops_before != ops_after:
            return "a stream operator call inside the lambda changed its arguments: %s -> %s" % (ops_before, ops_after)
        return ""
    finally:
        func.__defaults__ = old_defaults
