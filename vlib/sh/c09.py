"""C09: callbacks fire at every matching call site and their metadata reaches the stream."""
import ast
from typing import Iterable

from func_adl import EventDataset, func_adl_callable, func_adl_callback, func_adl_parameterized_call

from vlib.sh.common import HI, LO, TWIN, L, dump, nt, pick, tick

import os

LOG = []
QUICK = os.environ.get("VERIF_TIER_NOW", "quick") == "quick"


def cb_trk_class(s, a):
    LOG.append(("class", "Trk", a.func.attr))
    return s.MetaData({"tag": "trk_class"}), a


def cb_trk_pt(s, a):
    LOG.append(("method", "Trk", a.func.attr))
    return s.MetaData({"tag": "trk_pt"}), a


def cb_jet_pt(s, a):
    LOG.append(("method", "Jet", a.func.attr))
    return s.MetaData({"tag": "jet_pt"}), a


def cb_jet_rewrite(s, a):
    "returns another call site: renamed method, extra argument"
    LOG.append(("method", "Jet", a.func.attr))
    new = ast.Call(ast.Attribute(a.func.value, "mass_rewritten", L), [ast.Constant(2.5), ast.Constant(42)], [])     # replaces the argument the user wrote, adds one
    return s.MetaData({"tag": "jet_mass"}), new


def cb_evt_rw(s, a):
    "returns another call site (a new node); the result is used as receiver of a further call site"
    LOG.append(("method", "Evt", a.func.attr))
    new = ast.Call(ast.Attribute(a.func.value, "lead_rewritten", L), list(a.args), [])
    return s.MetaData({"tag": "lead_rw"}), new


def cb_calib(s, a):
    "function processor that returns another call site"
    LOG.append(("func", "calib", len(a.args)))
    return s.MetaData({"tag": "calib"}), ast.Call(ast.Name("calib_rewritten", L), list(a.args), [])


def cb_param(s, a, param):
    LOG.append(("param", "getAttr", param))
    return s.MetaData({"tag": "param"}), a, float


@func_adl_callback(cb_trk_class)
class Trk:
    @func_adl_callback(cb_trk_pt)
    def pt(self) -> float: ...  # noqa

    def eta(self) -> float: ...  # noqa


class Jet:
    @func_adl_callback(cb_jet_pt)
    def pt(self) -> float: ...  # noqa

    def eta(self) -> float: ...  # noqa

    def idx(self) -> int: ...  # noqa

    @func_adl_callback(cb_jet_rewrite)
    def mass(self, scale: float = 1.0, order: int = 2) -> float: ...  # noqa   (the call site gives scale only: the follower fills order in, i.e. works on a copy of the call)

    def Tracks(self) -> Iterable[Trk]: ...  # noqa

    @func_adl_parameterized_call(cb_param)
    @property
    def getAttr(self): ...  # noqa


def cb_muon_class(s, a):
    LOG.append(("class", "Muon", a.func.attr))
    return s.MetaData({"tag": "muon_class"}), a


class Particle:
    def p(self) -> float: ...  # noqa


@func_adl_callback(cb_muon_class)
class Muon(Particle):
    def iso(self) -> float: ...  # noqa


class Evt:
    def lead_mu(self) -> Muon: ...  # noqa
    def Jets(self) -> Iterable[Jet]: ...  # noqa
    def lead(self) -> Jet: ...  # noqa
    def met(self) -> float: ...  # noqa

    @func_adl_callback(cb_evt_rw)
    def lead_rw(self) -> Jet: ...  # noqa


@func_adl_callable(cb_calib)
def calib(x: float) -> float: ...  # noqa


class TDS(EventDataset[Evt]):
    def __init__(self):
        super().__init__(Evt)

    async def execute_result_async(self, a, title=None):
        return a


NSITES = 9
TAGS = {0: ["jet_pt"], 1: [], 2: ["trk_class", "trk_pt"], 3: ["trk_class"], 4: ["calib"], 5: ["param"], 6: ["jet_mass"], 7: ["muon_class"], 8: ["lead_rw", "jet_pt"]}


def P(s):
    return ast.parse(s, mode="eval").body


def site(i, jv, k, s):
    "the expression for call site i over the jet variable jv"
    if i == 0:
        return P("%s.pt()" % jv)
    if i == 1:
        return P("%s.eta()" % jv)
    if i == 2:
        return P("%s.Tracks().Select(lambda j: j.pt()).Count()" % jv)     # the inner parameter re-uses the name of the enclosing lambda's parameter (another class)
    if i == 3:
        return P("%s.Tracks().Where(lambda t: t.eta() > 1).Count()" % jv)
    if i == 4:
        return P("calib(%s.eta())" % jv)
    if i == 5:
        n = P("%s.getAttr[0]('attr_a')" % jv)
        n.func.slice = ast.Tuple([ast.Constant(k), ast.Constant(s)], L)
        return n
    if i == 7:   # method inherited from an undecorated base, called on an instance of the decorated subclass (independent of jv)
        return P("e.lead_mu().p()")
    if i == 8:   # a callback that returns a new call node, with a callback-bearing call site chained on its result (independent of jv)
        return P("e.lead_rw().pt()")
    return P("%s.mass(3.0)" % jv)


def expected_log(mask, k, s):
    exp = []
    for i in range(NSITES):
        if (mask >> i) & 1:
            if i == 0:
                exp.append(("method", "Jet", "pt"))
            elif i == 2:
                exp += [("class", "Trk", "pt"), ("method", "Trk", "pt")]
            elif i == 3:
                exp.append(("class", "Trk", "eta"))
            elif i == 4:
                exp.append(("func", "calib", 1))
            elif i == 5:
                exp.append(("param", "getAttr", (k, s)))
            elif i == 6:
                exp.append(("method", "Jet", "mass"))
            elif i == 7:
                exp.append(("class", "Muon", "p"))
            elif i == 8:
                exp += [("method", "Evt", "lead_rw"), ("method", "Jet", "pt")]
    return exp


def c09(code: int, m2: int, m3: int, k: int) -> str:
    """
    pre: LO <= code < HI and 0 <= code < 64
    pre: 0 <= m2 < 16 and 0 <= m3 < 2
    post: (_ == '') != TWIN
    """
    s = "cpp_type"
    code = pick(code, max(LO, 0), min(HI, 64))
    place, mlow = code // 16, code % 16
    mask = mlow | (pick(m2, 0, 16) << 4) | (pick(m3, 0, 2) << 8)
    present = [i for i in range(NSITES) if (mask >> i) & 1]
    if QUICK and 3 < len(present) < NSITES:
        return ""     # quick tier: every subset of at most 3 call sites, and all of them together
    # placement: 0 = sites inside e.Jets().Select(lambda j: ...); 1 = sites on e.lead() directly in the stream lambda; 2 = Where over jets inside SelectMany;
    # 3 = as 2, the nested lambda handed to Where by keyword
    jv = "j" if place != 1 else "e.lead()"
    terms = [site(i, jv, k, s) for i in present] or [P("%s.idx()" % jv)]
    total = terms[0]
    for t in terms[1:]:
        total = ast.BinOp(total, ast.Add(), t)
    if place == 0:
        body = ast.Call(ast.Attribute(P("e.Jets()"), "Select", L), [ast.Lambda(ast.arguments([], [ast.arg("j")], None, [], [], None, []), total)], [])
        op = "Select"
    elif place == 1:
        body = ast.Tuple([total, P("e.met()")], L)
        op = "Select"
    elif place == 2:
        body = ast.Call(ast.Attribute(P("e.Jets()"), "Where", L), [ast.Lambda(ast.arguments([], [ast.arg("j")], None, [], [], None, []), ast.Compare(total, [ast.Gt()], [ast.Constant(1)]))], [])
        op = "SelectMany"
    else:
        body = ast.Call(ast.Attribute(P("e.Jets()"), "Where", L), [],
                        [ast.keyword("filter", ast.Lambda(ast.arguments([], [ast.arg("j")], None, [], [], None, []), ast.Compare(total, [ast.Gt()], [ast.Constant(1)])))])
        op = "SelectMany"
    lam = ast.Lambda(ast.arguments([], [ast.arg("e")], None, [], [], None, []), body)
    del LOG[:]
    tick()
    try:
        if 5 in present:
            st = getattr(TDS(), op)(lam)
        else:
            with nt():      # the only symbolic value (the property parameter) is not in this query: nothing for the tracer to follow
                st = getattr(TDS(), op)(lam)
    except Exception as e:
        return "raised %s: %s" % (type(e).__name__, e)
    exp = expected_log(mask, k, s)
    got = list(LOG)
    # every expected invocation happened, nothing else fired; class-level before method-level for the same site
    rest = list(got)
    for x in exp:
        hit = -1
        for gi, g in enumerate(rest):
            if g[0] == x[0] and g[1] == x[1] and (g[2] == x[2] if x[0] != "param" else (len(g[2]) == 2 and g[2][0] is k and g[2][1] is s) or g[2] == x[2]):
                hit = gi
                break
        if hit < 0:
            return "callback %s did not fire (log %s)" % (x[:2], [g[:2] for g in got])
        rest.pop(hit)
    if rest:
        return "callbacks fired for call sites that are not in the query: %s" % [g[:2] for g in rest]
    for gi, g in enumerate(got):
        if g[0] == "method" and g[1] == "Trk":
            if not any(h[0] == "class" and h[1] == "Trk" and h[2] == g[2] for h in got[:gi]):
                return "method-level callback fired before the class-level one"
    # metadata: on the source chain of the result, upstream of the operator; nothing inside the lambda
    with nt():
        q = st.query_ast
        if not (isinstance(q, ast.Call) and isinstance(q.func, ast.Name) and q.func.id == op and len(q.args) == 2):
            return "operator node malformed"
        tags = []
        node = q.args[0]
        while isinstance(node, ast.Call) and isinstance(node.func, ast.Name) and node.func.id == "MetaData":
            d = ast.literal_eval(node.args[1])
            tags.append(d.get("tag"))
            node = node.args[0]
        if not (isinstance(node, ast.Call) and isinstance(node.func, ast.Name) and node.func.id == "EventDataset"):
            return "source chain does not end at the dataset"
        want = sorted(t for i in present for t in TAGS[i])
        if sorted(set(tags)) != sorted(set(want)):
            return "metadata on the source chain %s, expected %s" % (sorted(set(tags)), sorted(set(want)))
        inner_md = [x for x in ast.walk(q.args[1]) if isinstance(x, ast.Call) and isinstance(x.func, ast.Name) and x.func.id == "MetaData"]
        if inner_md:
            return "MetaData left inside the lambda"
        calls = [x for x in ast.walk(q.args[1]) if isinstance(x, ast.Call)]
        if 6 in present:
            rw = [x for x in calls if isinstance(x.func, ast.Attribute) and x.func.attr == "mass_rewritten"]
            if len(rw) != 1 or len(rw[0].args) != 2 or any(isinstance(x.func, ast.Attribute) and x.func.attr == "mass" for x in calls):
                return "the call-site rewrite returned by the callback is not what the query contains"
            if [getattr(x, "value", None) for x in rw[0].args] != [2.5, 42]:
                return "the arguments of the call site returned by the callback are not what the query contains: " + dump(rw[0])[:200]
        if 4 in present:
            rw = [x for x in calls if isinstance(x.func, ast.Name) and x.func.id == "calib_rewritten"]
            if len(rw) != 1 or any(isinstance(x.func, ast.Name) and x.func.id == "calib" for x in calls):
                return "the call-site rewrite returned by the function processor is not what the query contains"
        if 8 in present:
            rw = [x for x in calls if isinstance(x.func, ast.Attribute) and x.func.attr == "lead_rewritten"]
            if len(rw) != 1 or any(isinstance(x.func, ast.Attribute) and x.func.attr == "lead_rw" for x in calls):
                return "the call-site rewrite returned by the callback (receiver of another call site) is not what the query contains"
        if 5 in present:
            ga = [x for x in calls if isinstance(x.func, ast.Attribute) and x.func.attr == "getAttr"]
            subs = [x for x in ast.walk(q.args[1]) if isinstance(x, ast.Subscript) and isinstance(x.value, ast.Attribute) and x.value.attr == "getAttr"]
            if len(ga) != 1 or subs:
                return "the [param] subscript was not removed from the emitted call"
    return ""
