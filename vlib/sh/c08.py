"""C08: type following yields the declared types."""
import ast
from dataclasses import dataclass
from typing import Any, Generic, Iterable, TypeVar

from func_adl import EventDataset, ObjectStream
from func_adl.type_based_replacement import register_func_adl_os_collection, remap_by_types

from vlib.sh.common import HI, LO, TWIN, L, dump, nt, pick, tick

T = TypeVar("T")
U = TypeVar("U")


class Trk:
    def pt(self) -> float: ...  # noqa
    def q(self) -> int: ...  # noqa


class BaseJet:
    def pt(self) -> float: ...  # noqa
    def idx(self) -> int: ...  # noqa


class Jet(BaseJet):
    def eta(self) -> float: ...  # noqa
    def Tracks(self) -> Iterable[Trk]: ...  # noqa
    def best(self) -> Trk: ...  # noqa
    def untyped(self): ...  # noqa
    def tagged(self) -> bool: ...  # noqa


class Vec(Generic[T]):
    def at(self, i: int) -> T: ...  # noqa
    def items(self) -> Iterable[T]: ...  # noqa
    def size(self) -> int: ...  # noqa


class JetVec(Vec[Jet]):
    def lead(self) -> Jet: ...  # noqa


class Vec2(Vec[T]):
    "generic subclass of a generic class"
    def other(self) -> T: ...  # noqa


class JetColl(Iterable[Jet]):
    "custom Iterable subclass"
    def n(self) -> int: ...  # noqa


class Jagged(Iterable[Iterable[T]]):
    "its type parameter is not its element type"
    def depth(self) -> int: ...  # noqa


class TaggedJets(Iterable[Jet], Generic[T]):
    "an Iterable of Jet with an unrelated type parameter"
    def tag(self) -> T: ...  # noqa


class Pair(Generic[T, U]):
    def first(self) -> T: ...  # noqa
    def second(self) -> U: ...  # noqa


class Swapped(Pair[U, T], Generic[T, U]):
    "Swapped[int, Jet] is a Pair[Jet, int]: the subclass declares its type variables in another order than its base uses them"


class KeyedColl(Iterable[U], Generic[T, U]):
    "KeyedColl[int, Trk] iterates over Trk: an extra, unrelated leading type parameter"
    def key(self) -> T: ...  # noqa


class Sequence(Generic[T]):
    "a user class that happens to have the name of something in the typing module"
    def head(self) -> T: ...  # noqa


class JetSeq(Sequence[T]):
    def tail(self) -> T: ...  # noqa


class Helper:
    def helper(self) -> int: ...  # noqa


class MixJets(Helper, Iterable[Jet]):
    "an ordinary mixin class is listed before the base that carries the type information"


class MixColl(Helper, Vec[Trk]):
    pass


class Box(Generic[T]):
    "derives directly from Generic"
    def get(self) -> T: ...  # noqa
    def count(self) -> int: ...  # noqa


@dataclass
class Info:
    run: int
    jets: Iterable[Jet]
    w: float


@dataclass
class Vertex:
    "annotations given as strings (forward references / from __future__ import annotations)"
    z: "float"
    ntrk: "int"
    lead: "Jet"
    good: "bool"


class Evt:
    def vtx(self) -> Vertex: ...  # noqa
    def met(self) -> float: ...  # noqa
    def n(self) -> int: ...  # noqa
    def ok(self) -> bool: ...  # noqa
    def name(self) -> str: ...  # noqa
    def unk(self): ...  # noqa
    def Jets(self) -> Iterable[Jet]: ...  # noqa
    def jv(self) -> JetVec: ...  # noqa
    def tv(self) -> Vec2[Trk]: ...  # noqa
    def jc(self) -> JetColl: ...  # noqa
    def box(self) -> Box[Jet]: ...  # noqa
    def info(self) -> Info: ...  # noqa
    def lead(self) -> Jet: ...  # noqa
    def jag(self) -> Jagged[float]: ...  # noqa
    def tj(self) -> TaggedJets[Trk]: ...  # noqa
    def mj(self) -> MixJets: ...  # noqa
    def mc(self) -> MixColl: ...  # noqa
    def sw(self) -> Swapped[int, Jet]: ...  # noqa
    def kc(self) -> KeyedColl[int, Trk]: ...  # noqa
    def js(self) -> JetSeq[Jet]: ...  # noqa


M = TypeVar("M")


@register_func_adl_os_collection
class ExtraOps(ObjectStream[M]):
    "registered collection class adding its own operators to every Iterable[...] value"

    def __init__(self, a, item_type):
        super().__init__(a, item_type)

    def Last(self) -> M: ...  # noqa
    def Size(self) -> int: ...  # noqa


class TDS(EventDataset[Evt]):
    def __init__(self):
        super().__init__(Evt)

    async def execute_result_async(self, a, title=None):
        return a


# (expression over e: Evt, expected type)
TABLE = [
    ("e.met()", float), ("e.n()", int), ("e.ok()", bool), ("e.name()", str), ("e.unk()", Any),
    ("e.Jets()", Iterable[Jet]), ("e.lead().pt()", float), ("e.lead().idx()", int), ("e.lead().eta()", float),
    ("e.lead().best().pt()", float), ("e.lead().untyped()", Any), ("e.lead().Tracks()", Iterable[Trk]),
    ("e.Jets().First()", Jet), ("e.Jets().First().pt()", float), ("e.Jets()[0]", Jet), ("e.Jets()[0].best().q()", int),
    ("e.Jets().Count()", int), ("len(e.Jets())", int), ("e.Jets().Last()", Jet), ("e.Jets().Size()", int),
    ("e.Jets().Select(lambda j: j.pt())", Iterable[float]), ("e.Jets().Select(lambda j: j.idx())", Iterable[int]),
    ("e.Jets().Select(lambda j: j.best())", Iterable[Trk]), ("e.Jets().Select(lambda j: j)", Iterable[Jet]),
    ("e.Jets().Where(lambda j: j.pt() > 1)", Iterable[Jet]), ("e.Jets().Where(lambda j: j.tagged())", Iterable[Jet]),
    ("e.Jets().SelectMany(lambda j: j.Tracks())", Iterable[Trk]),
    ("e.Jets().Select(lambda j: j.Tracks())", Iterable[Iterable[Trk]]),
    ("e.Jets().Select(lambda j: j.Tracks().Select(lambda t: t.pt()))", Iterable[Iterable[float]]),
    ("e.Jets().Select(lambda j: j.Tracks().Where(lambda t: t.q() > 0).Count())", Iterable[int]),
    ("e.Jets().Select(lambda j: j.Tracks().Select(lambda t: t.pt()).First())", Iterable[float]),
    ("e.Jets().Where(lambda j: j.Tracks().Count() > 2).Select(lambda j: j.best()).First().q()", int),
    ("e.Jets().Select(lambda j: j.Tracks()).First().First().pt()", float),
    ("e.Jets().SelectMany(lambda j: j.Tracks()).Select(lambda t: t.q()).First()", int),
    ("e.jv().at(0)", Jet), ("e.jv().at(0).pt()", float), ("e.jv().items()", Iterable[Jet]), ("e.jv().size()", int), ("e.jv().lead().eta()", float),
    ("e.jv().items().Select(lambda j: j.idx())", Iterable[int]),
    ("e.tv().at(1)", Trk), ("e.tv().other().pt()", float), ("e.tv().items().First().q()", int),
    ("e.jc().First()", Jet), ("e.jc().Select(lambda j: j.pt())", Iterable[float]), ("e.jc().n()", int), ("e.jc().Count()", int),
    ("e.box().get()", Jet), ("e.box().get().pt()", float), ("e.box().count()", int),
    ("e.info().run", int), ("e.info().w", float), ("e.info().jets", Iterable[Jet]), ("e.info().jets.First().pt()", float), ("e.info()['run']", int),
    ("{'a': e.n(), 'b': e.Jets()}.a", int), ("{'a': e.n(), 'b': e.Jets()}['b']", Iterable[Jet]), ("{'a': e.n(), 'b': e.Jets()}.b.First().pt()", float),
    # dictionaries with the same keys but other value types, in one process and in one query
    ("{'a': e.n()}.a", int), ("{'a': e.met()}.a", float), ("{'a': e.Jets()}.a", Iterable[Jet]), ("{'a': e.lead()}['a'].pt()", float),
    ("{'a': e.met(), 'k': {'a': e.n()}.a}.a", float), ("{'a': e.n(), 'k': {'a': e.met()}.a}.k", float),
    ("e.vtx().z", float), ("e.vtx().ntrk + 1", int), ("e.vtx().lead.pt()", float), ("e.vtx().lead.Tracks().Count()", int), ("e.vtx()['good']", bool),
    ("(e.n(), e.met())[1]", float), ("(e.n(), e.Jets())[1].First()", Jet),
    ("e.met() > 1", bool), ("e.n() == e.n()", bool), ("e.ok() and e.met() > 1", bool), ("e.ok() or e.lead().tagged()", bool), ("not e.ok()", bool),
    ("e.met() > 1 > e.n()", bool), ("-e.n()", int), ("-e.met()", float), ("abs(e.met())", float),
    ("e.n() if e.ok() else e.n()", int), ("e.n() if e.ok() else e.met()", float), ("e.lead() if e.ok() else e.Jets().First()", Jet),
    ("e.Jets() if e.ok() else e.jv().items()", Iterable[Jet]), ("e.name() if e.ok() else e.name()", str),
    # Iterable subclasses whose single type parameter is not the element type
    ("e.jag().First()", Iterable[float]), ("e.jag().First().First()", float), ("e.jag().SelectMany(lambda r: r)", Iterable[float]), ("e.jag()[0][0]", float),
    ("e.jag().Select(lambda r: r.Count())", Iterable[int]), ("e.jag().depth()", int),
    ("e.tj().First()", Jet), ("e.tj().First().pt()", float), ("e.tj().Select(lambda j: j.eta())", Iterable[float]), ("e.tj().tag()", Trk),
    # a mixin listed first; unary minus on a bool
    ("e.mj().First()", Jet), ("e.mj().Select(lambda j: j.pt())", Iterable[float]), ("e.mj()[0].eta()", float), ("e.mj().helper()", int),
    ("e.mc().at(0)", Trk), ("e.mc().items().First().q()", int), ("e.mc().helper()", int),
    ("-e.ok()", int), ("-e.lead().tagged() + 1", int),
    # the lambda is handed over by keyword
    ("e.Jets().Where(filter=lambda j: j.pt() > 1)", Iterable[Jet]), ("e.Jets().Where(filter=lambda j: j.tagged()).First()", Jet),
    ("e.Jets().Where(filter=lambda j: j.pt() > 1).Select(f=lambda j: j.idx())", Iterable[int]), ("e.Jets().SelectMany(func=lambda j: j.Tracks()).Count()", int),
    # type variables declared by the subclass in another order / with an unrelated extra one; a user class named like a typing alias
    ("e.sw().first()", Jet), ("e.sw().second()", int), ("e.sw().first().pt()", float),
    ("e.kc().First()", Trk), ("e.kc().Select(lambda t: t.q())", Iterable[int]), ("e.kc()[0].pt()", float), ("e.kc().key()", int),
    ("e.js().head()", Jet), ("e.js().tail().eta()", float),
    # an inner lambda re-uses the name of the outer variable, which is used again afterwards
    ("e.Jets().Select(lambda e: e.idx()).Count() + e.n()", int), ("(e.Jets().Select(lambda e: e.pt()), e.met())[1]", float),
    ("e.Jets().Where(lambda e: e.tagged()).Count() > e.n()", bool), ("(e.Jets().Select(lambda e: e.best()).First().q(), e.lead().eta())[1]", float),
    ("e.Jets().Select(lambda j: j.Tracks().Select(lambda j: j.q()).Count() + j.idx())", Iterable[int]),
    ("e.Jets().Select(lambda j: (j.Tracks().Where(lambda j: j.q() > 0).Count(), j.eta())[1])", Iterable[float]),
]
NTABLE = len(TABLE)
PARSED = [ast.parse(s, mode="eval").body for s, _ in TABLE]

# operand kinds for the arithmetic / conditional promotion rules
OPERANDS = [("e.n()", int), ("e.met()", float), ("e.unk()", Any), ("K", int), ("1.5", float), ("e.lead().idx()", int), ("e.Jets().Count()", int), ("e.ok()", bool)]
BINOPS = [ast.Add, ast.Sub, ast.Mult, ast.Div, ast.Mod]


def operand(i, k):
    src, t = OPERANDS[i]
    if src == "K":
        return ast.Constant(k), t
    return ast.parse(src, mode="eval").body, t


def promote(ta, tb, op):
    if ta is Any or tb is Any:
        return Any
    if ta is float or tb is float or op is ast.Div:
        return float
    return int


def c08a(code: int) -> str:
    """
    pre: LO <= code < HI and 0 <= code < 200
    post: (_ == '') != TWIN
    """
    code = pick(code, max(LO, 0), min(HI, NTABLE))
    src, want = TABLE[code]
    body = ast.parse(src, mode="eval").body
    tick()
    try:
        _, r, t = remap_by_types(TDS(), {"e": Evt}, body)
    except Exception as e:
        return "%s raised %s: %s" % (src, type(e).__name__, e)
    if t != want:
        return "%s: type %r, declared %r" % (src, t, want)
    return ""


def c08b(la: int, lb: int, op: int, form: int, k: int) -> str:
    """
    pre: LO <= la < HI and 0 <= la < 8 and 0 <= lb < 8 and 0 <= op < 5 and 0 <= form <= 2
    post: (_ == '') != TWIN
    """
    la, lb, op, form = pick(la, max(LO, 0), min(HI, 8)), pick(lb, 0, 8), pick(op, 0, 5), pick(form, 0, 3)
    a, ta = operand(la, k)
    b, tb = operand(lb, k + 1)
    if form == 0:
        body, want = ast.BinOp(a, BINOPS[op](), b), promote(ta, tb, BINOPS[op])
    elif form == 1:     # conditional: equal types keep the type, numeric mixes give float
        body = ast.IfExp(ast.parse("e.ok()", mode="eval").body, a, b)
        want = ta if ta == tb else float
        if (ta is bool) != (tb is bool):
            want = "refused"      # a truth value against a number: the designed refusal (incompatible branch types)
    else:               # comparison and boolean combination of arithmetic
        body = ast.BoolOp(ast.And(), [ast.Compare(ast.BinOp(a, BINOPS[op](), b), [ast.Gt()], [ast.Constant(k)]), ast.parse("e.ok()", mode="eval").body])
        want = bool
    tick()
    try:
        _, r, t = remap_by_types(TDS(), {"e": Evt}, body)
    except ValueError as e:
        if want == "refused":
            return ""
        return "raised ValueError: %s for %s" % (e, dump(body)[:200])
    except Exception as e:
        return "raised %s: %s for %s" % (type(e).__name__, e, dump(body)[:200])
    if want == "refused":
        return "" if t in (float, Any) else "type %r for a conditional between a truth value and a number: %s" % (t, dump(body)[:200])
    if t != want:
        return "type %r, rules say %r for %s" % (t, want, dump(body)[:200])
    return ""


# stream-level: (operator, lambda source, expected item type or 'ValueError'); applied to TDS() or to a derived stream
STREAM = [
    ("Select", "lambda e: e.met()", float, None), ("Select", "lambda e: e.Jets()", Iterable[Jet], None), ("Select", "lambda e: e.lead()", Jet, None),
    ("Select", "lambda e: e.unk()", Any, None), ("Select", "lambda e: (e.n(), e.met())", Any, None),
    ("SelectMany", "lambda e: e.Jets()", Jet, None), ("SelectMany", "lambda e: e.jc()", Jet, None), ("SelectMany", "lambda e: e.jv().items()", Jet, None),
    ("SelectMany", "lambda e: e.Jets().Select(lambda j: j.pt())", float, None), ("SelectMany", "lambda e: e.kc()", Trk, None), ("Select", "lambda e: e.sw().first()", Jet, None),
    ("Where", "lambda e: e.met() > 1", Evt, None), ("Where", "lambda e: e.ok()", Evt, None), ("Where", "lambda e: e.ok() and not e.lead().tagged()", Evt, None),
    ("Where", "lambda e: e.met()", "ValueError", None), ("Where", "lambda e: e.n()", "ValueError", None), ("Where", "lambda e: e.lead()", "ValueError", None),
    ("Where", "lambda e: e.unk()", "ValueError", None), ("Where", "lambda e: -e.ok()", "ValueError", None), ("SelectMany", "lambda e: e.mj()", Jet, None), ("Select", "lambda e: e.Jets().Where(filter=lambda j: j.pt())", "ValueError", None),
    # second level: derived stream first
    ("Select", "lambda j: j.pt()", float, ("SelectMany", "lambda e: e.Jets()")),
    ("Select", "lambda js: js.First()", Jet, ("Select", "lambda e: e.Jets()")),
    ("Select", "lambda js: js.Select(lambda j: j.Tracks().Count())", Iterable[int], ("Select", "lambda e: e.Jets()")),
    ("SelectMany", "lambda j: j.Tracks()", Trk, ("SelectMany", "lambda e: e.Jets()")),
    ("Where", "lambda j: j.pt() > 30", Jet, ("SelectMany", "lambda e: e.Jets()")),
    ("Where", "lambda j: j.pt()", "ValueError", ("SelectMany", "lambda e: e.Jets()")),
    ("Select", "lambda j: j.best().q()", int, ("Where", "lambda j: j.tagged()", ("SelectMany", "lambda e: e.Jets()"))),
    ("Select", "lambda d: d.jets.First().eta()", float, ("Select", "lambda e: e.info()")),
    ("Select", "lambda d: d.a + 1", int, ("Select", "lambda e: {'a': e.n(), 'b': e.met()}")),
    ("Select", "lambda d: d['b'] + d.a", float, ("Select", "lambda e: {'a': e.n(), 'b': e.met()}")),
    ("Select", "lambda d: d.a", float, ("Select", "lambda e: {'a': e.met(), 'b': e.n()}")),
    ("Select", "lambda d: d.a.First()", Jet, ("Select", "lambda e: {'a': e.Jets(), 'b': e.n()}")),
    ("Where", "lambda d: d.a", "ValueError", ("Select", "lambda e: {'a': e.met(), 'b': e.n()}")),
    ("Where", "lambda d: d.good", Vertex, ("Select", "lambda e: e.vtx()")),
    ("Select", "lambda d: {'a': d.a / 2}", None, ("Select", "lambda e: {'a': e.n()}")),
]
NSTREAM = len(STREAM)


def P(s):
    return ast.parse(s).body[0].value


def derive(spec):
    if spec is None:
        return TDS()
    # (op, lambda[, earlier]) : derive `earlier` first, then apply op
    base = derive(spec[2]) if len(spec) == 3 else TDS()
    return getattr(base, spec[0])(P(spec[1]))


def c08c(code: int) -> str:
    """
    pre: LO <= code < HI and 0 <= code < 100
    post: (_ == '') != TWIN
    """
    code = pick(code, max(LO, 0), min(HI, NSTREAM))
    op, lam, want, first = STREAM[code]
    with nt():
        base = derive(first)
    tick()
    try:
        st = getattr(base, op)(P(lam))
    except ValueError as e:
        return "" if want == "ValueError" else "%s(%s) raised ValueError: %s" % (op, lam, e)
    except Exception as e:
        return "%s(%s) raised %s: %s" % (op, lam, type(e).__name__, e)
    if want == "ValueError":
        return "%s(%s): a non-boolean filter was accepted" % (op, lam)
    if want is None:
        # dictionary item: compare the field types of the stand-in dataclass
        from typing import get_type_hints
        ft = get_type_hints(st.item_type)
        return "" if ft == {"a": float} else "%s(%s): dictionary field types %r" % (op, lam, ft)
    if st.item_type != want:
        return "%s(%s): item type %r, declared %r" % (op, lam, st.item_type, want)
    return ""
