"""C04: captured variables are frozen by value at the call, respecting scope."""
import ast
import types
from typing import Union

from func_adl.util_ast import _resolve_called_lambdas, _rewrite_captured_vars, check_ast, global_getclosurevars

from vlib.sh.common import HI, LO, TWIN, L, clone, dump, nt, pick, same_fast, tick

M = types.ModuleType("c04_mod")
M.val = 0


class K:
    class Inner:
        C = 0


SHAPES = [
    "lambda e: e.f(cap) + cap",
    "lambda gcap: gcap.x",
    "lambda e: e.js.Select(lambda cap: cap + 1).Count() + cap",
    "lambda e: e.js.Select(lambda j: j + cap)",
    "lambda e: [cap + 1 for cap in e.js]",
    "lambda e: [j + cap for j in e.js if j > cap]",
    "lambda e: e.x + G_CAP",
    "lambda e: e.x > K.Inner.C",
    "lambda e: e.x + M.val",
    "lambda e: (lambda cap: cap + 1)(e.x) + cap",
    "lambda e: e.js.Where(lambda j: j.pt > cap).Select(lambda cap: cap.pt + 1)",
    "lambda e: cap if e.x > cap else -cap",
    "lambda e: e.js.Select(lambda j: j.trk.Select(lambda cap: cap + G_CAP))",
    "lambda e: e.f(k=cap, gcap=gcap)",
    "lambda e: {'a': cap}['a'] + (cap, 1)[0]",
    "lambda e: e.x + other_name + cap",
    "lambda e: (j + cap for j in e.js if (lambda cap: cap > 1)(j))",
    "lambda e: e.js.Select(lambda j: [cap for cap in j.trk if cap > G_CAP]) if cap > 0 else e.y",
    "lambda e, cap2=3: e.x + cap + cap2",
    "lambda e: [gcap for j in e.js] + [1 for gcap in e.js if gcap > cap]",
    # the lambda's own parameter has the name of a global; an inner scope re-uses the name, then the parameter is used again
    "lambda gcap: (gcap.js.Select(lambda gcap: gcap.pt), gcap, cap)",
    "lambda gcap: ([gcap.pt for gcap in gcap.js], gcap.x + cap)",
    "lambda gcap: (gcap.js.Select(lambda j: j.trk.Where(lambda gcap: gcap.pt > 1)).Count() + gcap.n, G_CAP)",
    "lambda e: e.js.Select(lambda gcap: [gcap for gcap in gcap.trk] + [gcap]) if gcap > 0 else G_CAP",
    # an enclosing-scope variable that has the name of a module global: python resolves it to the enclosing scope
    "lambda e: e.x + G_DUP + cap + G_CAP",
    "lambda e: e.js.Select(lambda j: j + G_DUP).Where(lambda G_DUP: G_DUP > G_CAP)",
    "lambda e: [G_DUP + 1 for G_DUP in e.js] + [G_DUP, gcap]",
    # parameters of nested lambdas that are positional-only, keyword-only, *args / **kwargs; defaults (evaluated in the enclosing scope)
    "lambda e: e.js.Select(lambda j, /, *, cap=cap: j + cap).Count() + cap",
    "lambda e: e.js.Select(lambda *gcap, **G_CAP: (gcap, G_CAP, cap)).Count() + G_CAP + gcap",
    "lambda e: (lambda cap, /: cap + 1)(e.x) + cap + e.js.Select(lambda j, gcap=gcap: j + gcap)",
    # a method is called on the captured value (the value is frozen, the method call stays)
    "lambda e: e.f(cap.__str__()) + e.g(gcap.__repr__(), G_CAP.bit_length())",
    "lambda e: e.js.Select(lambda j: j.name == cap.__str__()) if G_CAP.bit_length() > 1 else cap",
    # names bound by an assignment expression are local to the lambda they are in
    "lambda e: (cap := e.x) + cap + G_CAP",
    "lambda e: e.js.Select(lambda j: (gcap := j.pt) + gcap) if cap > 0 else gcap",
]
NSHAPES = len(SHAPES)
G_CAP = 0
gcap = 0
G_DUP = 0


def _compile(src):
    ns = {}
    exec("def outer(cap):\n    G_DUP = cap\n    return %s\n" % src, globals(), ns)
    return ns["outer"]


OUT = [_compile(s) for s in SHAPES]
OK_TYPES = (str, int, float, bool, complex, bytes)
ALT = [None, [1, "a"], (1, 2), {"a": 1}, {1}, object()]
Val = Union[int, bool, str, float, bytes]


def walrus_targets(body):
    "names assigned with := in a lambda body (they are locals of that lambda); nested lambdas have their own"
    out = set()

    def walk(n):
        if isinstance(n, ast.Lambda):
            return
        if isinstance(n, ast.NamedExpr):
            out.add(n.target.id)
        for c in ast.iter_child_nodes(n):
            walk(c)
    walk(body)
    return out


def expected(n, bound, env):
    "fresh tree with every FREE occurrence of a captured name / attribute chain replaced by a Constant holding the captured value"
    if isinstance(n, ast.Lambda):
        a = n.args
        b2 = bound | {x.arg for x in a.posonlyargs + a.args + a.kwonlyargs} | {x.arg for x in (a.vararg, a.kwarg) if x is not None} | walrus_targets(n.body)
        args = ast.arguments(posonlyargs=[ast.arg(x.arg) for x in a.posonlyargs], args=[ast.arg(x.arg) for x in a.args], vararg=ast.arg(a.vararg.arg) if a.vararg else None,
                             kwonlyargs=[ast.arg(x.arg) for x in a.kwonlyargs], kw_defaults=[expected(d, bound, env) if d is not None else None for d in a.kw_defaults],
                             kwarg=ast.arg(a.kwarg.arg) if a.kwarg else None, defaults=[expected(d, bound, env) for d in a.defaults])
        return ast.Lambda(args, expected(n.body, b2, env))
    if isinstance(n, (ast.ListComp, ast.GeneratorExp)):
        g = n.generators[0]
        it = expected(g.iter, bound, env)
        b2 = bound | {g.target.id}
        comp = ast.comprehension(ast.Name(g.target.id, ast.Store()), it, [expected(i, b2, env) for i in g.ifs], 0)
        return type(n)(expected(n.elt, b2, env), [comp])
    if isinstance(n, ast.Attribute):
        # K.Inner.C / M.val chains rooted at a free captured name
        chain = []
        cur = n
        while isinstance(cur, ast.Attribute):
            chain.append(cur.attr)
            cur = cur.value
        if isinstance(cur, ast.Name) and cur.id not in bound and cur.id in ("K", "M"):
            return ast.Constant(env[cur.id + "." + ".".join(reversed(chain))])
    if isinstance(n, ast.Name):
        if n.id not in bound and n.id in env:
            return ast.Constant(env[n.id])
        return ast.Name(n.id, n.ctx)
    if isinstance(n, ast.AST):
        return type(n)(**{f: expected(getattr(n, f), bound, env) for f in n._fields if hasattr(n, f)})
    if isinstance(n, list):
        return [expected(x, bound, env) for x in n]
    return n


def uses(src_tree, env, v):
    "does the expected tree hold the value v at all (i.e. is some occurrence of its name free)?"
    e = expected(src_tree, frozenset(), env)
    return any(isinstance(x, ast.Constant) and x.value is v for x in ast.walk(e))


def c04(code: int, alt: int, hist: int, v: Val, g: int, v2: int) -> str:
    """
    pre: LO <= code < HI and 0 <= code < 34
    pre: 0 <= alt <= 6 and 0 <= hist <= 3
    pre: not isinstance(v, str) or len(v) <= 3
    pre: not isinstance(v, bytes) or len(v) <= 3
    post: (_ == '') != TWIN
    """
    code = pick(code, max(LO, 0), min(HI, NSHAPES))
    alt, hist = pick(alt, 0, 7), pick(hist, 0, 4)
    if alt > 0:
        v = ALT[alt - 1]
    f = OUT[code](v)
    glob = f.__globals__
    old = (glob["G_CAP"], glob["gcap"], K.Inner.C, M.val)
    glob["G_CAP"], glob["gcap"], K.Inner.C, M.val = g, v, g + 1, g + 2
    glob["G_DUP"] = g + 3
    try:
        env = {"cap": v, "G_DUP": v, "G_CAP": glob["G_CAP"], "gcap": glob["gcap"], "K.Inner.C": K.Inner.C, "M.val": M.val}
        src = ast.parse(SHAPES[code]).body[0].value
        with nt():
            pristine = ast.parse(SHAPES[code]).body[0].value
            # only names the compiled lambda really captures (closure cell / referenced global) are in scope of the claim
            names_used = set(f.__code__.co_freevars) | set(f.__code__.co_names)
            for const in f.__code__.co_consts:
                if hasattr(const, "co_names"):
                    names_used |= set(const.co_names) | set(const.co_freevars)
        exp = expected(pristine, frozenset(), env)
        with nt():
            value_is_embedded = uses(pristine, env, v)
        tick()
        try:
            a = _rewrite_captured_vars(global_getclosurevars(f)).visit(src)
        except Exception as e:
            return "capture rewriting raised %s: %s" % (type(e).__name__, e)
        if not same_fast(a, exp):
            return "captured names not replaced exactly at their free occurrences: " + dump(a)[:400]
        # the transportable-constant gate
        try:
            with nt():
                a2 = clone(a)
            b = _resolve_called_lambdas().visit(a2)
            check_ast(b)
            refused = False
        except ValueError:
            refused = True
        except Exception as e:
            return "raised %s: %s" % (type(e).__name__, e)
        bad_value = value_is_embedded and not isinstance(v, OK_TYPES)
        if refused and not bad_value:
            return "ValueError although every captured value is transportable"
        if bad_value and not refused:
            return "non-transportable captured value was not refused"
        # later rebinding / deletion must not change what was emitted
        if hist == 1:
            if f.__closure__:
                f.__closure__[0].cell_contents = v2
            glob["G_CAP"] = v2
        elif hist == 2:
            glob["G_CAP"], glob["gcap"], glob["G_DUP"] = v2, v2, v2
            K.Inner.C = v2
            M.val = v2
        elif hist == 3:
            del glob["G_CAP"]
            K.Inner.C = None
        if not refused and not same_fast(a, exp):
            return "emitted lambda changed after the captured names were rebound"
        return ""
    finally:
        glob["G_CAP"], glob["gcap"], K.Inner.C, M.val = old
