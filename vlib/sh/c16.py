"""C16: query-level metadata under symbolic histories (op kinds, parents, keys, unbounded int values)."""
import ast

from func_adl import EventDataset
from func_adl.ast.ast_hash import calc_ast_hash
from func_adl.ast.meta_data import lookup_query_metadata

from vlib.sh.common import HI, LO, TWIN, dump, nt, pick, tick

KEYS = ["ka", "kb", "kc"]
NOPS = 7
SEL = ast.parse("lambda e: e.x").body[0].value
WH = ast.parse("lambda e: e.x > 1").body[0].value


class DS(EventDataset):
    def __init__(self):
        super().__init__()
        self.got = []

    async def execute_result_async(self, a, title=None):
        self.got.append(a)
        return a


def P(s):
    return ast.parse(s).body[0].value


def apply(par, o, v):
    "-> (new stream, dict of metadata set by this step or None if not a QMetaData step)"
    if o == 0:
        return par.QMetaData({KEYS[0]: v}), {KEYS[0]: v}
    if o == 1:
        return par.QMetaData({KEYS[1]: v}), {KEYS[1]: v}
    if o == 2:
        return par.QMetaData({KEYS[0]: v, KEYS[2]: 7}), {KEYS[0]: v, KEYS[2]: 7}
    if o == 7:     # the key is set to None: from then on a lookup gives None again (the most recently set value)
        return par.QMetaData({KEYS[0]: None}), {KEYS[0]: None}
    # the remaining operations never look at a metadata value: executed concretely (untraced) on the real code
    with nt():
        if o == 3:
            return par.Select(P("lambda e: e.x")), None
        if o == 4:
            return par.Where(P("lambda e: e.x > 1")), None
        if o == 5:
            return par.MetaData({"m": 1}), None
        return par.SelectMany(P("lambda e: e.js")), None


def run_stream(st):
    c = st.value_async()
    try:
        c.send(None)
    except StopIteration as e:
        return e.value
    return None


def hist(nsteps, ops, pars, vals):
    real = [DS()]
    twin = [DS()]
    maps = [{}]
    for i in range(nsteps):
        o, p, v = ops[i], pars[i], vals[i]
        s, setmd = apply(real[p], o, v)
        real.append(s)
        if setmd is None:
            twin.append(apply(twin[p], o, v)[0])
            maps.append(dict(maps[p]))
        else:
            twin.append(twin[p])
            m = dict(maps[p])
            m.update(setmd)
            maps.append(m)
        # the new stream after every step, every live stream after the last step; every key
        for si in (range(len(real)) if i == nsteps - 1 else [len(real) - 1]):
            for k in KEYS:
                got = lookup_query_metadata(real[si], k)
                exp = maps[si].get(k, None)
                if exp is None:
                    if got is not None:
                        return "stream %d sees %s although it was never set on its path" % (si, k)
                elif got is None:
                    return "stream %d lost key %s" % (si, k)
                elif not (got is exp or got == exp):
                    return "stream %d has a stale or foreign value for %s" % (si, k)
    # what executors receive: no metadata value is consulted on this path in a correct library, so it runs untraced;
    # if a change makes it consult one, CrossHair raises here, which is reported and then decided by the native replay
    with nt():
        for si in range(len(real)):
            a = run_stream(real[si])
            b = run_stream(twin[si])
            if a is None or b is None:
                return "executor did not complete"
            if dump(a) != dump(b):
                return "query differs from the chain without QMetaData: " + dump(a)
            if calc_ast_hash(a) != calc_ast_hash(b):
                return "hash differs from the chain without QMetaData"
            if any(hasattr(n, "_q_metadata") for n in ast.walk(b)):
                return "twin chain carries query metadata (harness error)"
    return ""


def c16(code: int, o2: int, p1: int, p2: int, v0: int, v1: int, v2: int) -> str:
    """
    pre: LO <= code < HI and 0 <= code < 49
    pre: 0 <= o2 < 7 and 0 <= p1 <= 1 and 0 <= p2 <= 2
    post: (_ == '') != TWIN
    """
    code = pick(code, max(LO, 0), min(HI, 49))
    ops = [code // 7, code % 7, pick(o2, 0, 7)]
    pars = [0, pick(p1, 0, 2), pick(p2, 0, 3)]
    tick()
    try:
        return hist(3, ops, pars, [v0, v1, v2])
    except Exception as e:
        return "raised %s: %s" % (type(e).__name__, e)


def c16k4(code: int, o3: int, p1: int, p2: int, p3: int, v0: int, v1: int, v2: int, v3: int) -> str:
    """
    pre: LO <= code < HI and 0 <= code < 125
    pre: 0 <= o3 < 5 and 0 <= p1 <= 1 and 0 <= p2 <= 2 and 0 <= p3 <= 3
    post: (_ == '') != TWIN
    """
    code = pick(code, max(LO, 0), min(HI, 125))
    K4 = [0, 1, 2, 3, 5]
    o2 = code % 5
    ops = [K4[code // 25], K4[(code // 5) % 5], K4[o2], K4[pick(o3, 0, 5)]]
    pars = [0, pick(p1, 0, 2), pick(p2, 0, 3), pick(p3, 0, 4)]
    tick()
    try:
        return hist(4, ops, pars, [v0, v1, v2, v3])
    except Exception as e:
        return "raised %s: %s" % (type(e).__name__, e)


def c16w(code: int, sp: int, v0: int, v1: int, v2: int) -> str:
    """
    pre: LO <= code < HI and 0 <= code < 64
    pre: 0 <= sp <= 1
    post: (_ == '') != TWIN
    """
    # a linear history of five steps: three QMetaData calls (any of the three kinds each) with another operation between them, so that each one
    # annotates a different node; values unbounded (the solver finds e.g. v0 == v2 != v1: a key that goes back to an earlier value)
    code = pick(code, max(LO, 0), min(HI, 64))
    spacer = [3, 5][pick(sp, 0, 2)]
    QK = [0, 1, 2, 7]
    ops = [QK[code // 16], spacer, QK[(code // 4) % 4], spacer, QK[code % 4]]
    tick()
    try:
        return hist(5, ops, [0, 1, 2, 3, 4], [v0, 0, v1, 0, v2])
    except Exception as e:
        return "raised %s: %s" % (type(e).__name__, e)
