"""C17 (structure): change_extension_functions_to_calls with fully symbolic attribute names."""
import ast

from func_adl.ast.func_adl_ast_utils import change_extension_functions_to_calls, default_list_of_functions

from vlib.sh.common import HI, LO, TWIN, L, attr, call, const, lam, mcall, name, dump, nt, pick, same_fast, sub, tick

NSHAPES = 8
OPS = list(default_list_of_functions)


def opidx(n):
    "traced: which operator name (if any) the symbolic string equals"
    for i, op in enumerate(OPS):
        if n == op:
            return i
    return -1


def ref_custom(n, names):
    "reference conversion for an explicit list of operator names (concrete)"
    if isinstance(n, ast.Call):
        f = ref_custom(n.func, names)
        args = [ref_custom(a, names) for a in n.args]
        kws = [ref_custom(k, names) for k in n.keywords]
        if isinstance(f, ast.Attribute) and f.attr in names:
            return ast.Call(ast.Name(f.attr, L), [f.value] + args, kws)
        return ast.Call(f, args, kws)
    if isinstance(n, ast.AST):
        return type(n)(**{f: ref_custom(getattr(n, f, None), names) for f in n._fields})
    if isinstance(n, list):
        return [ref_custom(x, names) for x in n]
    return n


def ref(n, isop):
    """reference conversion producing a fresh tree (bottom-up); untraced: whether an attribute name is an operator
    was decided before (isop maps id(name object) -> bool)"""
    if isinstance(n, ast.Call):
        f = ref(n.func, isop)
        args = [ref(a, isop) for a in n.args]
        kws = [ref(k, isop) for k in n.keywords]
        if isinstance(f, ast.Attribute) and isop[id(f.attr)]:
            return ast.Call(ast.Name(f.attr, L), [f.value] + args, kws)
        return ast.Call(f, args, kws)
    if isinstance(n, ast.AST):
        return type(n)(**{f: ref(getattr(n, f, None), isop) for f in n._fields})
    if isinstance(n, list):
        return [ref(x, isop) for x in n]
    return n


def has_method_form(n, isop):
    for x in ast.walk(n):
        if isinstance(x, ast.Call) and isinstance(x.func, ast.Attribute) and isop.get(id(x.func.attr), type(x.func.attr) is str and x.func.attr in OPS):
            return True
    return False


def build(shape, n1, n2, na):
    extra = [attr("q", "a%d" % i) for i in range(na)]
    if shape == 0:   # outer call, call inside the lambda body
        return ast.Call(ast.Attribute(name("ds"), n1, L), [lam("x", ast.Call(ast.Attribute(attr("x", "js"), n2, L), [name("k")] + extra, []))], [])
    if shape == 1:   # chained receivers
        return call("f", ast.Call(ast.Attribute(ast.Call(ast.Attribute(name("ds"), n1, L), [name("a")], []), n2, L), [name("b")] + extra, []))
    if shape == 2:   # inside positional and keyword arguments of a non-operator call, inside an operator lambda
        inner = ast.Call(name("g"), [ast.Call(ast.Attribute(name("e"), n1, L), extra, [])],
                         [ast.keyword("kw", ast.Call(ast.Attribute(attr("e", "js"), n2, L), [lam("j", attr("j", "pt"))], []))])
        return mcall(name("ds"), "Select", lam("e", inner))
    if shape == 3:   # function-form call named n1 with a method-form n2 inside; n1 as Name must never be touched
        return ast.Call(name(n1), [ast.Call(ast.Attribute(name("ds"), n2, L), [name("a")], []), name("b")] + extra, [])
    if shape == 4:   # attribute that is not called, subscripted attribute that is called (parameterised method)
        return call("h", ast.Attribute(name("ds"), n1, L), ast.Call(sub(ast.Attribute(name("ds"), n2, L), 0), extra, []))
    if shape == 7:   # what an operator call returns is called on the spot (the callee is a computed expression), an operator call among its arguments
        callee = ast.Call(ast.Attribute(attr("e", "fs"), n1, L), [], [])
        return mcall(name("ds"), "Select", lam("e", ast.Call(callee, [ast.Call(ast.Attribute(attr("e", "js"), n2, L), extra, [])], [])))
    if shape == 6:   # operator calls that hand their arguments over by keyword (and a non-operator call with a keyword holding an operator call)
        inner = ast.Call(ast.Attribute(attr("x", "js"), n2, L), [name("k")] + extra, [ast.keyword("kw", mcall(attr("x", "tr"), "Count"))])
        return ast.Call(ast.Attribute(name("ds"), n1, L), [], [ast.keyword("f", lam("x", inner))])
    # shape 5: tuple / dict / comparison / conditional around calls at depth 3
    c1 = ast.Call(ast.Attribute(attr("e", "js"), n1, L), [lam("j", ast.Compare(ast.Call(ast.Attribute(attr("j", "tr"), n2, L), extra, []), [ast.Gt()], [const(1)]))], [])
    return mcall(name("ds"), "Where", lam("e", ast.IfExp(name("c"), ast.Tuple([c1, const(1)], L), ast.Dict([const("k")], [c1]))))


def c17a(code: int, n1: str, n2: str) -> str:
    """
    pre: LO <= code < HI and 0 <= code < 24
    pre: len(n1) <= 12 and len(n2) <= 12
    post: (_ == '') != TWIN
    """
    code = pick(code, max(LO, 0), min(HI, NSHAPES * 3))
    shape, na = code // 3, code % 3
    i1, i2 = opidx(n1), opidx(n2)
    q = build(shape, n1, n2, na)
    q2 = build(shape, n1, n2, na)
    with nt():
        isop = {id(n1): i1 >= 0, id(n2): i2 >= 0}
        for x in ast.walk(q):
            if isinstance(x, ast.Attribute) and id(x.attr) not in isop:
                isop[id(x.attr)] = x.attr in OPS
        expect = ref(q2, isop)
    tick()
    # history: an earlier call with the caller's own list of names must not change what the default list means afterwards (and is judged itself)
    with nt():
        pre_q = ast.parse("ds.Frob(lambda e: e.js.Select(lambda j: j.Frob(1)).Blip(2))", mode="eval").body
        pre_expect = ref_custom(ast.parse("ds.Frob(lambda e: e.js.Select(lambda j: j.Frob(1)).Blip(2))", mode="eval").body, ["Frob", "Blip"])
    try:
        pre_r = change_extension_functions_to_calls(pre_q, ["Frob", "Blip"])
    except Exception as e:
        return "raised %s: %s (explicit list of names)" % (type(e).__name__, e)
    if not same_fast(pre_r, pre_expect):
        return "wrong conversion with an explicit list of names: " + dump(pre_r)
    with nt():
        none_q = ast.parse("ds.Select(lambda e: e.js.Where(lambda j: j.pt > 1).Count())", mode="eval").body
        none_expect = ast.parse("ds.Select(lambda e: e.js.Where(lambda j: j.pt > 1).Count())", mode="eval").body
    try:
        none_r = change_extension_functions_to_calls(none_q, [])
    except Exception as e:
        return "raised %s: %s (empty list of names)" % (type(e).__name__, e)
    if not same_fast(none_r, none_expect):
        return "an empty list of names still rewrote something: " + dump(none_r)
    try:
        r = change_extension_functions_to_calls(q)
    except Exception as e:
        return "raised %s: %s" % (type(e).__name__, e)
    if not same_fast(r, expect):
        return "wrong conversion: " + dump(r)
    with nt():
        left = has_method_form(r, isop)
    if left:
        return "method-form operator call left"
    try:
        r2 = change_extension_functions_to_calls(r)
    except Exception as e:
        return "second application raised %s: %s" % (type(e).__name__, e)
    if not same_fast(r2, expect):
        return "not idempotent: " + dump(r2)
    return ""
