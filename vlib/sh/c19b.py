"""C19 (selectivity / structure): aggregate_node_transformer with a symbolic function name,
argument count, keyword count and position."""
import ast
import copy

from func_adl.ast.aggregate_shortcuts import aggregate_node_transformer

from vlib.sh.common import HI, LO, TWIN, L, tick, attr, call, const, lam, mcall, name, same

FOLD = {
    "len": "lambda acc,v: acc+1",
    "Count": "lambda acc,v: acc+1",
    "Sum": "lambda acc,v: acc + v",
    "Max": "lambda acc,v: acc if acc > v else v",
    "Min": "lambda acc,v: acc if acc < v else v",
}
NSHAPES = 8


def ref(n):
    "reference lowering, producing a fresh tree"
    if isinstance(n, ast.Call) and isinstance(n.func, ast.Name) and len(n.args) == 1 and len(n.keywords) == 0:
        for k in FOLD:
            if n.func.id == k:
                return call("Aggregate", ref(n.args[0]), const(0), ast.parse(FOLD[k]).body[0].value)
    if isinstance(n, ast.AST):
        return type(n)(**{f: ref(getattr(n, f, None)) for f in n._fields})
    if isinstance(n, list):
        return [ref(x) for x in n]
    return n


def build(shape, nm, nargs, nkw):
    args = [attr("e", "a%d" % i) for i in range(nargs)]
    kws = [ast.keyword("start", const(3))] if nkw else []
    if shape == 0:      # plain call
        return ast.Call(name(nm), args, kws)
    if shape == 1:      # same-named method
        return ast.Call(ast.Attribute(name("x"), nm, L), args, kws)
    if shape == 2:      # bare reference as an argument, and as attribute
        return call("f", name(nm), ast.Attribute(name("x"), nm, L))
    if shape == 3:      # inside a lambda body
        return call("Select", name("ds"), lam("e", ast.Call(name(nm), args, kws)))
    if shape == 4:      # inside the sequence argument of a real shortcut
        return call("Count", ast.Call(name(nm), args, kws))
    if shape == 5:      # a real shortcut inside the (first) argument of the symbolic call
        return ast.Call(name(nm), [call("Sum", attr("e", "js"))] + args, kws)
    if shape == 6:      # inside a lambda inside the sequence argument, method-form neighbour
        return call("Max", call("Select", attr("e", "js"), lam("j", ast.BinOp(ast.Call(name(nm), args, kws), ast.Add(), mcall(name("j"), nm)))))
    # shape 7: nested twice with keyword argument holding a shortcut
    return ast.Call(name("g"), [], [ast.keyword("k", ast.Call(name(nm), args, kws))])


def c19b(shape: int, nm: str, nargs: int, nkw: int) -> str:
    """
    pre: LO <= shape < HI and 0 <= shape < 8
    pre: len(nm) <= 5 and 0 <= nargs <= 3 and 0 <= nkw <= 1
    post: (_ == '') != TWIN
    """
    q = build(shape, nm, nargs, nkw)
    expect = ref(build(shape, nm, nargs, nkw))
    tick()
    try:
        r = aggregate_node_transformer().visit(q)
    except Exception as e:
        return "raised %s: %s" % (type(e).__name__, e)
    if not same(r, expect):
        return "wrong lowering: " + ast.dump(r)
    return ""
