"""C12: value_async runs exactly the stream's query on its own dataset, once - symbolic choice of streams, completion order,
failure point, override executor and title."""
import ast

from func_adl import EventDataset, find_EventDataset

from vlib.sh.common import HI, LO, TWIN, dump, nt, pick, tick

LOG = []


class Gate:
    "awaitable that suspends until the harness releases it"

    def __init__(self):
        self.done = False
        self.val = None
        self.exc = None

    def __await__(self):
        while not self.done:
            yield self
        if self.exc is not None:
            raise self.exc
        return self.val


class DS(EventDataset):
    def __init__(self, name):
        super().__init__()
        self.name = name

    async def execute_result_async(self, a, title=None):
        g = Gate()
        LOG.append((self, a, title, g))       # the dataset OBJECT that was asked, not its name
        return await g


class OverrideExe:
    "an override executor that is a callable object, falsy like an empty batching queue, and returns an awaitable that is not a coroutine"

    def __len__(self):
        return 0

    def __call__(self, a, title=None):
        # a plain callable that hands back an awaitable object (not a coroutine), as an executor built on futures does
        g = Gate()
        LOG.append((self, a, title, g))
        return g


override_exe = OverrideExe()


class Boom(Exception):
    pass


def P(s):
    return ast.parse(s).body[0].value


D = [DS("A"), DS("B"), DS("C")]
STREAMS = [
    D[0].Select(P("lambda e: (e.x, MetaData(e.run, e.lumi), MetaData(e.jets(), {}, strict=True), MetaData(*e.parts, {}))")),      # user functions that happen to be called MetaData: not wrappers
    D[1].QMetaData({"k": 2}).Select(P("lambda e: e.x")),
    D[0].Select(P("lambda e: e.x")).MetaData({}).MetaData({}).Where(P("lambda e: e.x > 1")).MetaData({}),   # stacked empty wrappers
    D[1].Where(P("lambda e: e.x > 1")).AsAwkwardArray(["c"]),
    D[2].MetaData({}).MetaData({"a": 1}).SelectMany(P("lambda e: e.js")).QMetaData({"q": 1}).AsPandasDF(["c"]),
    D[2].Select(P("lambda e: e.Jets().Select(lambda j: j.pt)")).AsROOTTTree("f.root", "t", ["c"]),
    D[0],
    D[1].QMetaData({"k": 2}).MetaData({}).Select(P("lambda e: (e.x, e.y)")).AsParquetFiles("f.pq", ["a", "b"]),
]
OWNER = [D[0], D[1], D[0], D[1], D[2], D[2], D[0], D[1]]
BUILT_WITHOUT_EXECUTION = len(LOG) == 0


def strip_empty(n):
    "reference: fresh tree without empty MetaData wrappers"
    if isinstance(n, ast.Call) and isinstance(n.func, ast.Name) and n.func.id == "MetaData" and len(n.args) == 2 and not n.keywords \
            and not isinstance(n.args[0], ast.Starred) and isinstance(n.args[1], ast.Dict) and len(n.args[1].keys) == 0:
        return strip_empty(n.args[0])
    if isinstance(n, ast.AST):
        return type(n)(**{f: strip_empty(getattr(n, f, None)) for f in n._fields})
    if isinstance(n, list):
        return [strip_empty(x) for x in n]
    return n


EXPECT = [ast.dump(strip_empty(s.query_ast)) for s in STREAMS]
ROOTS = [D[0].query_ast, D[1].query_ast, D[0].query_ast, D[1].query_ast, D[2].query_ast, D[2].query_ast, D[0].query_ast, D[1].query_ast]


def sched(nstreams, n, ws, os_, fail, ovr, title):
    if not BUILT_WITHOUT_EXECUTION:
        return "an executor ran while the queries were being built"
    del LOG[:]
    which = ws[:n]
    coros = []
    for i, w in enumerate(which):
        use_ovr = (ovr >> i) & 1
        coros.append(STREAMS[w].value_async(executor=override_exe, title=title) if use_ovr else STREAMS[w].value_async(title=title))
    if len(LOG) != 0:
        return "executor ran before the coroutine was awaited"
    for c in coros:
        c.send(None)
    if len(LOG) != n:
        return "wrong number of executor calls: %d for %d executions" % (len(LOG), n)
    order = []
    for o in os_:
        if o < n and o not in order:
            order.append(o)
    for i in range(n):
        if i not in order:
            order.append(i)
    for i in order:
        g = LOG[i][3]
        g.done = True
        if i == fail:
            g.exc = Boom()
        else:
            g.val = ("res", i)
        try:
            coros[i].send(None)
            return "execution %d did not finish after its executor completed" % i
        except StopIteration as e:
            if i == fail or e.value is not g.val:
                return "execution %d returned something else than its executor's result" % i
        except Boom:
            if i != fail:
                return "execution %d raised another execution's exception" % i
    if len(LOG) != n:
        return "extra executor calls"
    for i, w in enumerate(which):
        nm, a, t, g = LOG[i]
        want = override_exe if (ovr >> i) & 1 else OWNER[w]
        if nm is not want:
            return "execution %d of stream %d went to %s instead of %s" % (i, w, getattr(nm, "name", "the override executor"), getattr(want, "name", "the override executor"))
        if t is not title:
            return "title altered"
        with nt():
            if ast.dump(a) != EXPECT[w]:
                return "executor received another query than the stream's (minus empty MetaData): " + ast.dump(a)[:300]
            try:
                root = find_EventDataset(a)
            except Exception as e:
                return "find_EventDataset failed on a derived query: %s" % e
            # the root node may be a copy of the dataset's own node (QMetaData annotates a copy): it must be a dataset node that carries the dataset object
            if root is not ROOTS[w] and not (isinstance(root, ast.Call) and ast.dump(root) == ast.dump(ROOTS[w]) and getattr(root, "_eds_object", None) is OWNER[w]):
                return "find_EventDataset returned a node that is not the stream's dataset node (nor a copy of it that carries the dataset object)"
    return ""


def roots_rejected():
    "queries with no root / two roots must be rejected"
    two = ast.Call(ast.Name("Zip", ast.Load()), [STREAMS[0].query_ast, STREAMS[1].query_ast], [])
    none = P("Select(Where(ds, lambda e: e.x > 1), lambda e: e.y)")
    for q, what in ((two, "two roots"), (none, "no root")):
        try:
            find_EventDataset(q)
            return "find_EventDataset accepted a query with " + what
        except Exception:
            pass
    return ""


def c12(code: int, n: int, w2: int, o0: int, o1: int, fail: int, ovr: int, title: str) -> str:
    """
    pre: LO <= code < HI and 0 <= code < 16
    pre: 1 <= n <= 3 and 0 <= w2 < 4
    pre: 0 <= o0 <= 2 and 0 <= o1 <= 2 and 0 <= fail <= 3 and 0 <= ovr <= 1
    post: (_ == '') != TWIN
    """
    code = pick(code, max(LO, 0), min(HI, 16))
    n = pick(n, 1, 4)
    if n == 1 and code % 4 != 0:
        return ""
    ws = [code // 4, code % 4, pick(w2, 0, 4) if n >= 3 else 0]
    os_ = [pick(o0, 0, 3), pick(o1, 0, 3)] if n >= 2 else [0, 0]
    fail, ovr = pick(fail, 0, 4), pick(ovr, 0, 2)
    tick()
    try:
        r = sched(4, n, ws, os_, fail, ovr, title)
        return r or roots_rejected()
    except Exception as e:
        return "raised %s: %s" % (type(e).__name__, e)


def c12t(code: int, n: int, w2: int, o0: int, o1: int, fail: int, ovr: int, title: str) -> str:
    """
    pre: LO <= code < HI and 0 <= code < 64
    pre: 1 <= n <= 3 and 0 <= w2 < 8
    pre: 0 <= o0 <= 2 and 0 <= o1 <= 2 and 0 <= fail <= 3 and 0 <= ovr <= 7
    post: (_ == '') != TWIN
    """
    code = pick(code, max(LO, 0), min(HI, 64))
    n = pick(n, 1, 4)
    ws = [code // 8, code % 8, pick(w2, 0, 8) if n >= 3 else 0]
    os_ = [pick(o0, 0, 3), pick(o1, 0, 3)] if n >= 2 else [0, 0]
    fail, ovr = pick(fail, 0, 4), pick(ovr, 0, 8)
    if ovr >= (1 << n):
        return ""
    tick()
    try:
        r = sched(8, n, ws, os_, fail, ovr, title)
        return r or roots_rejected()
    except Exception as e:
        return "raised %s: %s" % (type(e).__name__, e)
