"""C15: extract_metadata / remove_empty_metadata with symbolic dictionary sizes and values."""
import ast

from func_adl.ast.meta_data import extract_metadata, remove_empty_metadata

from vlib.sh.common import HI, LO, TWIN, L, attr, call, const, dump, lam, mcall, name, nt, pick, same_fast, snap, tick

NSHAPES = 4


def md(src, k, n, v, s):
    "MetaData wrapper number k with n entries; keys are unique per wrapper, values symbolic"
    keys = [const("w%d_%d" % (k, i)) for i in range(n)]
    vals = [const(v + k) if i == 0 else const(s) for i in range(n)]
    return call("MetaData", src, ast.Dict(keys, vals))


def build(shape, n, v, s):
    w = lambda k, src: md(src, k, n[k], v, s)  # noqa
    if shape == 0:
        inner = w(1, w(0, name("ds")))
        body = mcall(w(2, attr("e", "js")), "Select", lam("j", attr(w(3, name("j")), "pt")))
        return call("Select", inner, lam("e", body))
    if shape == 1:
        q = call("Select", w(1, call("Where", w(0, name("ds")), lam("e", ast.Compare(attr("e", "x"), [ast.Gt()], [const(1)])))),
                 lam("e", call("Count", w(2, attr("e", "js")))))
        return w(3, q)
    if shape == 2:
        q = ast.Call(name("f"), [w(0, name("a")), call("g", w(1, name("b")))], [ast.keyword("k", w(2, name("c")))])
        return w(3, q)
    # shape 3: three directly nested wrappers around a SelectMany whose lambda has a wrapper in a tuple
    q = call("SelectMany", name("ds"), lam("e", ast.Tuple([w(0, attr("e", "js")), const(1)], L)))
    return w(3, w(2, w(1, q)))


def is_md(n):
    return isinstance(n, ast.Call) and isinstance(n.func, ast.Name) and n.func.id == "MetaData" and len(n.args) == 2


def strip(n, drop, found):
    """reference: fresh tree without the wrappers for which drop(dict node) holds; `found` receives the Dict nodes of all
    wrappers in pre-order (outer first)"""
    if is_md(n):
        found.append(n.args[1])
        if drop(n.args[1]):
            return strip(n.args[0], drop, found)
    if isinstance(n, ast.AST):
        return type(n)(**{f: strip(getattr(n, f, None), drop, found) for f in n._fields})
    if isinstance(n, list):
        return [strip(x, drop, found) for x in n]
    return n


def inside_source(outer_call, dict_node):
    for x in ast.walk(outer_call.args[0]):
        if x is dict_node:
            return True
    return False


def c15(code: int, n1: int, n2: int, n3: int, v: int, s: str) -> str:
    """
    pre: LO <= code < HI and 0 <= code < 12
    pre: 0 <= n1 <= 2 and 0 <= n2 <= 2 and 0 <= n3 <= 2 and len(s) <= 2
    post: (_ == '') != TWIN
    """
    code = pick(code, max(LO, 0), min(HI, 12))
    shape, n0 = code // 3, code % 3
    n = [n0, pick(n1, 0, 3), pick(n2, 0, 3), pick(n3, 0, 3)]
    # ---- remove_empty_metadata
    q = build(shape, n, v, s)
    with nt():
        before = snap(q)
        expect = strip(q, lambda d: len(d.keys) == 0, [])
    tick()
    try:
        r = remove_empty_metadata(q)
    except Exception as e:
        return "remove_empty_metadata raised %s: %s" % (type(e).__name__, e)
    with nt():
        unchanged = snap(q) == before
    if not unchanged:
        return "remove_empty_metadata modified its input"
    if not same_fast(r, expect):
        return "remove_empty_metadata wrong result: " + dump(r)
    # ---- extract_metadata
    q = build(shape, n, v, s)
    with nt():
        dicts = []
        expect = strip(q, lambda d: True, dicts)
        wrappers = [x for x in ast.walk(q) if is_md(x)]
        order_pairs = [(o.args[1], i) for o in wrappers for i in dicts if i is not o.args[1] and inside_source(o, i)]
        exp_items = [dict(zip([k.value for k in d.keys], [c.value for c in d.values])) for d in dicts]
    try:
        r, got = extract_metadata(q)
    except Exception as e:
        return "extract_metadata raised %s: %s" % (type(e).__name__, e)
    if not same_fast(r, expect):
        return "extract_metadata wrong tree: " + dump(r)
    if len(got) != len(dicts):
        return "extract_metadata wrong number of dictionaries"
    pos = {}
    n_empty = 0
    for gi, g in enumerate(got):
        if len(g) == 0:
            n_empty += 1
            continue
        hit = None
        for di, e in enumerate(exp_items):
            if len(e) > 0 and list(e.keys())[0] in g:
                hit = di
        if hit is None or hit in pos:
            return "extract_metadata invented a dictionary"
        e = exp_items[hit]
        if len(g) != len(e):
            return "extract_metadata altered a dictionary"
        for k in e:
            if k not in g or not (g[k] == e[k]) or isinstance(g[k], str) != isinstance(e[k], str):
                return "extract_metadata altered a dictionary value"
        pos[hit] = gi
    if n_empty != sum(1 for e in exp_items if len(e) == 0):
        return "extract_metadata wrong number of empty dictionaries"
    with nt():
        idx = {id(d): i for i, d in enumerate(dicts)}
        bad = [1 for (o, i) in order_pairs if idx[id(o)] in pos and idx[id(i)] in pos and pos[idx[id(o)]] > pos[idx[id(i)]]]
    if bad:
        return "extract_metadata lists an inner wrapper before its outer wrapper"
    return ""
