"""C14: intermediate tuples / lists / dictionaries are compiled away by simplify_chained_calls."""
import ast

from func_adl.ast.function_simplifier import simplify_chained_calls

from vlib.sh.common import HI, LO, TWIN, L, attr, call, const, dump, lam, mcall, name, nt, pick, sub, tick

PACKS = 8      # producer kinds
CONS = 13      # consumer kinds
NCODES = PACKS * CONS
NAMES = [("x", "y", "z"), ("e", "e", "e"), ("x", "x", "y")]


def pack(pk, v, arity, k0, k1):
    """-> (packing expression over variable v, list of (projector(varname)->expr, kind)) where kind is 'i' scalar or 's' sequence"""
    f = lambda i: attr(v, "f%d" % i)  # noqa
    if pk == 0:   # tuple
        return ast.Tuple([f(i) for i in range(arity)], L), [(lambda w, i=i: sub(name(w), i), "i") for i in range(arity)]
    if pk == 1:   # list
        return ast.List([f(i) for i in range(arity)], L), [(lambda w, i=i: sub(name(w), i), "i") for i in range(arity)]
    if pk == 2:   # dict, subscript and attribute access
        return ast.Dict([const(k0), const(k1)], [f(0), f(1)]), [(lambda w: sub(name(w), k0), "i"), (lambda w: ast.Attribute(name(w), k1, L), "i"),
                                                                 (lambda w: ast.Attribute(name(w), k0, L), "i")]
    if pk == 3:   # tuple nested in tuple
        return ast.Tuple([ast.Tuple([f(0), f(1)], L), f(2)], L), [(lambda w: sub(sub(name(w), 0), 1), "i"), (lambda w: sub(name(w), 1), "i"),
                                                                    (lambda w: sub(sub(name(w), 0), 0), "i")]
    if pk == 4:   # tuple inside dict, dict inside tuple
        return ast.Dict([const(k0), const(k1)], [ast.Tuple([f(0), f(1)], L), ast.Dict([const(k1)], [f(2)])]), \
            [(lambda w: sub(sub(name(w), k0), 1), "i"), (lambda w: ast.Attribute(sub(name(w), k1), k1, L), "i"), (lambda w: sub(ast.Attribute(name(w), k0, L), 0), "i")]
    if pk == 5:   # a sequence and a scalar travelling together
        return ast.Tuple([attr(v, "js"), f(1)], L), [(lambda w: sub(name(w), 0), "s"), (lambda w: sub(name(w), 1), "i"), (lambda w: sub(name(w), 0), "s")]
    if pk == 6:   # dict with a sequence
        return ast.Dict([const(k0), const(k1)], [attr(v, "js"), f(1)]), [(lambda w: sub(name(w), k0), "s"), (lambda w: ast.Attribute(name(w), k1, L), "i"),
                                                                           (lambda w: ast.Attribute(name(w), k0, L), "s")]
    # pk 7: dict with integer keys
    return ast.Dict([const(0), const(1)], [attr(v, "js"), f(1)]), [(lambda w: sub(name(w), 0), "s"), (lambda w: sub(name(w), 1), "i"), (lambda w: sub(name(w), 0), "s")]


def build(pk, cons, arity, idx, k0, k1, form, ns):
    a, b, c = NAMES[ns]
    p, projs = pack(pk, a, arity, k0, k1)
    proj, kind = projs[idx % len(projs)]
    other = [q for q in projs if q[1] == "i"][0][0]
    S = (lambda src, fn: call("Select", src, fn)) if form == 0 else (lambda src, fn: mcall(src, "Select", fn))
    W = (lambda src, fn: call("Where", src, fn)) if form == 0 else (lambda src, fn: mcall(src, "Where", fn))
    M = (lambda src, fn: call("SelectMany", src, fn)) if form == 0 else (lambda src, fn: mcall(src, "SelectMany", fn))
    s1 = S(name("ds"), lam(a, p))
    scalar = (lambda w: proj(w)) if kind == "i" else (lambda w: call("Count", proj(w)))
    if cons == 0:     # Select projecting
        return S(s1, lam(b, scalar(b)))
    if cons == 1:     # Where on a projection, then Select projecting
        return S(W(s1, lam(b, ast.Compare(other(b), [ast.Gt()], [const(1)]))), lam(c, scalar(c)))
    if cons == 2:     # re-package (swap) in a middle stage, then project
        mid = S(s1, lam(b, ast.Tuple([other(b), scalar(b)], L)))
        return S(mid, lam(c, ast.BinOp(sub(name(c), 0), ast.Add(), sub(name(c), 1))))
    if cons == 3:     # SelectMany over the packaged sequence (or Select when no sequence), element refers to nothing packaged
        if kind == "s":
            return S(M(s1, lam(b, proj(b))), lam(c, attr(c, "pt")))
        return S(W(W(s1, lam(b, ast.Compare(scalar(b), [ast.Gt()], [const(0)]))), lam(b, ast.Compare(other(b), [ast.Lt()], [const(9)]))), lam(c, other(c)))
    if cons == 4:     # nested Select over the packaged sequence referring to another packaged field
        if kind == "s":
            inner = S(proj(b), lam("j", ast.BinOp(attr("j", "pt"), ast.Add(), other(b))))
            return S(s1, lam(b, call("Count", inner)))
        return S(S(s1, lam(b, ast.Dict([const("p"), const("q")], [scalar(b), other(b)]))), lam(c, ast.BinOp(ast.Attribute(name(c), "p", L), ast.Sub(), sub(name(c), "q"))))
    if cons == 5:     # three stages, last stage builds the final result tuple out of projections (allowed to remain)
        mid = W(s1, lam(b, ast.Compare(scalar(b), [ast.Gt()], [const(2)])))
        return S(mid, lam(c, ast.Tuple([scalar(c), other(c)], L)))
    if cons == 6:     # nested chain over the packaged sequence whose Where only looks at ANOTHER packaged field
        if kind != "s":
            return None
        inner = W(S(proj(b), lam("j", attr("j", "pt"))), lam("p", ast.Compare(other(b), [ast.Gt()], [const(30)])))
        return S(s1, lam(b, call("Count", inner)))
    if cons == 12:    # three SelectMany stages in a row: flatten, package per inner element, take the packages apart in the LAST stage
        if pk == 0:
            per = ast.Tuple([name("t"), attr("j", "f1")], L)
            p0, p1 = (lambda w: sub(name(w), 0)), (lambda w: sub(name(w), 1))
        elif pk == 2:
            per = ast.Dict([const(k0), const(k1)], [name("t"), attr("j", "f1")])
            p0, p1 = (lambda w: ast.Attribute(name(w), k0, L)), (lambda w: sub(name(w), k1))
        else:
            return None
        m2 = M(M(name("ds"), lam(a, attr(a, "js"))), lam("j", S(attr("j", "trk"), lam("t", per))))
        return M(m2, lam(b, S(attr(p0(b), "hits"), lam("h", ast.BinOp(attr("h", "pt"), ast.Add(), p1(b))))))
    if cons == 9:     # a pass-through stage Select(x -> x) in a chain of four: package, take apart and package again, hand on as it is, take apart
        mid = S(s1, lam(b, ast.Tuple([other(b), scalar(b)], L)))
        return S(S(mid, lam(c, name(c))), lam("w", ast.BinOp(sub(name("w"), 0), ast.Add(), sub(name("w"), 1))))
    if cons == 10:    # First(...) of a SelectMany whose lambda packages per inner element, projected after the First
        if pk == 0:
            per, pj = ast.Tuple([attr("t", "pt"), attr("j", "eta")], L), (lambda x: sub(x, idx % 2))
        elif pk == 2:
            per, pj = ast.Dict([const(k0), const(k1)], [attr("t", "pt"), attr("j", "eta")]), (lambda x: sub(x, k0) if idx % 2 == 0 else ast.Attribute(x, k1, L))
        else:
            return None
        many = M(attr(a, "js"), lam("j", S(attr("j", "trk"), lam("t", per))))
        if idx == 2:
            many = W(many, lam("w", ast.Compare(pj(name("w")), [ast.Gt()], [const(1)])))
        return S(name("ds"), lam(a, pj(call("First", many) if form == 0 else mcall(many, "First"))))
    if cons == 11:    # a packaged First(...) whose fields are read by attribute in a later stage: d.lead.pt
        if pk not in (2, 6):
            return None
        recs = S(attr(a, "js"), lam("j", ast.Dict([const(k0), const(k1)], [attr("j", "pt"), attr("j", "eta")])))      # a sequence of records
        s0 = S(name("ds"), lam(a, ast.Dict([const(k0), const(k1)], [call("First", recs) if form == 0 else mcall(recs, "First"), attr(a, "f1")])))
        lead = (lambda w: ast.Attribute(name(w), k0, L)) if idx % 2 == 0 else (lambda w: sub(name(w), k0))
        fld = (lambda x: ast.Attribute(x, k1, L)) if idx < 2 else (lambda x: sub(x, k1))
        return S(s0, lam(b, ast.BinOp(fld(lead(b)), ast.Add(), ast.Attribute(name(b), k1, L))))
    if cons == 8:     # two levels of SelectMany, the inner one packaging per element; a Select takes the packages apart
        if pk == 0:
            per = ast.Tuple([name("t"), attr("j", "f1")], L)
            p0, p1 = (lambda w: sub(name(w), 0)), (lambda w: sub(name(w), 1))
        elif pk == 2:
            per = ast.Dict([const(k0), const(k1)], [name("t"), attr("j", "f1")])
            p0, p1 = (lambda w: ast.Attribute(name(w), k0, L)), (lambda w: sub(name(w), k1))
        else:
            return None
        m2 = M(M(name("ds"), lam(a, attr(a, "js"))), lam("j", S(attr("j", "trk"), lam("t", per))))
        return S(m2, lam(b, ast.BinOp(attr(p0(b), "pt"), ast.Add(), p1(b))))
    # cons 7: SelectMany producing one package per inner element, taken apart by a second SelectMany
    if pk == 0:
        per = ast.Tuple([name("j"), attr(a, "f1")], L)
        p0, p1 = (lambda w: sub(name(w), 0)), (lambda w: sub(name(w), 1))
    elif pk == 2:
        per = ast.Dict([const(k0), const(k1)], [name("j"), attr(a, "f1")])
        p0, p1 = (lambda w: sub(name(w), k0)), (lambda w: ast.Attribute(name(w), k1, L))
    else:
        return None
    m1 = M(name("ds"), lam(a, S(attr(a, "js"), lam("j", per))))
    return M(m1, lam(b, S(attr(p0(b), "trk"), lam("k", ast.BinOp(attr("k", "pt"), ast.Add(), p1(b))))))


def residue(r, cons):
    "node kinds that must not remain; the final result tuple of consumer 5 is allowed"
    allowed = set()
    if cons == 5 and isinstance(r, ast.Call) and len(r.args) == 2 and isinstance(r.args[1], ast.Lambda) and isinstance(r.args[1].body, ast.Tuple):
        allowed.add(id(r.args[1].body))
    for n in ast.walk(r):
        if isinstance(n, (ast.Tuple, ast.List, ast.Dict)) and id(n) not in allowed:
            return "a %s construction is left" % type(n).__name__
        if isinstance(n, ast.Subscript) and isinstance(n.slice, ast.Constant):
            return "a constant subscript is left"
    return ""


def c14(code: int, arity: int, idx: int, k0: str, k1: str, form: int, ns: int) -> str:
    """
    pre: LO <= code < HI and 0 <= code < 104
    pre: 1 <= arity <= 3 and 0 <= idx <= 2 and 0 <= form <= 0 and 1 <= ns <= 2
    pre: len(k0) <= 2 and len(k1) <= 2 and k0 != k1
    post: (_ == '') != TWIN
    """
    return body(code, arity, idx, k0, k1, form, ns)


def c14t(code: int, arity: int, idx: int, k0: str, k1: str, form: int, ns: int) -> str:
    """
    pre: LO <= code < HI and 0 <= code < 104
    pre: 1 <= arity <= 3 and 0 <= idx <= 2 and 0 <= form <= 1 and 0 <= ns <= 2
    pre: len(k0) <= 3 and len(k1) <= 3 and k0 != k1
    post: (_ == '') != TWIN
    """
    return body(code, arity, idx, k0, k1, form, ns)


def body(code, arity, idx, k0, k1, form, ns):
    code = pick(code, max(LO, 0), min(HI, NCODES))
    pk, cons = code // CONS, code % CONS
    # combinations that add nothing are kept out by symbolic range checks BEFORE the case splits, so no path is spent on them
    if (pk == 7 and cons in (2, 3, 5)) or (cons == 6 and pk not in (5, 6, 7)) or (cons in (7, 8, 10, 12) and pk not in (0, 2)) or (cons == 11 and pk not in (2, 6)):
        return ""
    if pk in (0, 1):
        if idx >= arity:
            return ""
    elif arity != 3:
        return ""       # arity only varies for flat tuples / lists
    if cons in (7, 8, 12) and (arity != 3 or idx != 0):
        return ""
    if cons in (10, 11) and arity != 3:
        return ""
    arity, idx, form, ns = pick(arity, 1, 4), pick(idx, 0, 3), pick(form, 0, 2), pick(ns, 0, 3)
    q = build(pk, cons, arity, idx, k0, k1, form, ns)
    if q is None:
        return ""
    if form == 1:
        from func_adl.ast.func_adl_ast_utils import change_extension_functions_to_calls
        q = change_extension_functions_to_calls(q)
    tick()
    try:
        r = simplify_chained_calls().visit(q)
    except Exception as e:
        return "raised %s: %s" % (type(e).__name__, e)
    with nt():
        left = residue(r, cons)
    if left:
        return left + ": " + dump(r)[:300]
    return ""
