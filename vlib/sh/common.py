"""Helpers shared by engine-S harness modules (imported inside the CrossHair worker)."""
import ast
import os

LO = int(os.environ.get("VERIF_LO", "0"))
HI = int(os.environ.get("VERIF_HI", "1000000000"))
TWIN = os.environ.get("VERIF_TWIN", "0") == "1"
L = ast.Load()
REACHED = [0]


def tick():
    "count executions that got past preconditions and shape decoding, right before the code under test is called"
    REACHED[0] += 1



def pick(v, lo, hi):
    "turn a bounded symbolic int into a concrete one by case split (each case is a solver-checked branch)"
    for i in range(lo, hi):
        if v == i:
            return i
    raise AssertionError("pick: value outside [%d,%d)" % (lo, hi))


def lam(v, body):
    args = [ast.arg(x) for x in ([v] if isinstance(v, str) else v)]
    return ast.Lambda(ast.arguments([], args, None, [], [], None, []), body)


def name(v):
    return ast.Name(v, L)


def attr(v, a):
    return ast.Attribute(name(v) if isinstance(v, str) else v, a, L)


def call(f, *a):
    return ast.Call(name(f) if isinstance(f, str) else f, list(a), [])


def mcall(recv, m, *a):
    return ast.Call(ast.Attribute(recv, m, L), list(a), [])


def const(v):
    return ast.Constant(v)


def sub(v, s):
    return ast.Subscript(v, s if isinstance(s, ast.AST) else ast.Constant(s), L)


def same(a, b):
    "structural equality of two ASTs; constants by type and value; no realisation of symbolic leaves beyond =="
    if isinstance(a, ast.AST):
        if type(a) is not type(b):
            return False
        for f in a._fields:
            if f == "ctx" or f == "kind" or f == "type_comment":
                continue
            if not same(getattr(a, f, None), getattr(b, f, None)):
                return False
        return True
    if isinstance(a, list):
        if not isinstance(b, list) or len(a) != len(b):
            return False
        for x, y in zip(a, b):
            if not same(x, y):
                return False
        return True
    if isinstance(b, (ast.AST, list)):
        return False
    if a is b:
        return True
    if type(a) is not type(b):
        # symbolic proxies have proxy types: fall back to isinstance-compatible comparison
        for t in (bool, int, float, str, bytes, type(None)):
            if isinstance(a, t) != isinstance(b, t):
                return False
    return a == b


def snap(n):
    "identity + structure snapshot of an AST (detects in-place edits); leaves by identity"
    if isinstance(n, ast.AST):
        return (type(n).__name__, id(n), tuple((f, snap(getattr(n, f, None))) for f in n._fields))
    if isinstance(n, list):
        return ("list", id(n), tuple(snap(x) for x in n))
    return ("leaf", id(n))


# ---------------------------------------------------------------- fast (untraced) structural helpers
PLAIN = (int, str, bool, float, bytes, type(None), complex)


class _Null:
    def __enter__(self):
        return None

    def __exit__(self, *a):
        return False


def nt():
    """NoTracing() while CrossHair is tracing, a no-op otherwise (native replay).  Code under `with nt():`
    is NOT symbolically executed: only harness-side bookkeeping that never branches on symbolic values goes there."""
    try:
        from crosshair.tracers import NoTracing, is_tracing
        if is_tracing():
            return NoTracing()
    except Exception:  # noqa
        pass
    return _Null()


def _pairs(a, b, out):
    "structural walk (node types / list lengths are always concrete); collects leaf pairs that need a (traced) comparison"
    if isinstance(a, ast.AST):
        if type(a) is not type(b):
            return False
        for f in a._fields:
            if f == "ctx" or f == "kind" or f == "type_comment":
                continue
            if not _pairs(getattr(a, f, None), getattr(b, f, None), out):
                return False
        return True
    if type(a) is list:
        if type(b) is not list or len(a) != len(b):
            return False
        for x, y in zip(a, b):
            if not _pairs(x, y, out):
                return False
        return True
    if isinstance(b, ast.AST) or type(b) is list:
        return False
    if a is b:
        return True
    if type(a) in PLAIN and type(b) in PLAIN:
        return type(a) is type(b) and (a == b) and (repr(a) == repr(b))
    out.append((a, b))
    return True


def same_fast(a, b):
    """structural equality; the tree walk is untraced, only leaf pairs involving a symbolic value are compared
    under tracing (type-compatible and ==)."""
    out = []
    with nt():
        ok = _pairs(a, b, out)
    if not ok:
        return False
    for x, y in out:
        for t in (bool, int, float, str, bytes, type(None)):
            if isinstance(x, t) != isinstance(y, t):
                return False
        if not (x == y):
            return False
    return True


def snap_fast(n):
    with nt():
        return snap(n)


def dump(n):
    "ast.dump for diagnostics, never raises"
    try:
        return ast.dump(n)
    except Exception as e:  # noqa
        return "<undumpable %s: %s>" % (type(n).__name__, e)


def clone(n):
    "fresh tree sharing the leaf objects (so symbolic leaves still compare by identity); call under nt() or traced, both work"
    if isinstance(n, ast.AST):
        return type(n)(**{f: clone(getattr(n, f)) for f in n._fields if hasattr(n, f)})
    if isinstance(n, list):
        return [clone(x) for x in n]
    return n
