"""C09 - callbacks fire at every matching call site and their metadata reaches the stream."""
from vlib import chrun
from vlib.harness import base

PROP = "C09"
replay = base.s_replay


def run(tier):
    jobs = [chrun.SJob("vlib.sh.c09", "c09", base.parts(64), 400 if tier == "quick" else 1200,
                       what="ObjectStream.Select / SelectMany on a typed dataset whose model registers a class-level callback (Trk), method-level callbacks (Trk.pt, Jet.pt), a "
                            "method callback that returns a rewritten call (Jet.mass), a function processor that returns a rewritten call (calib), a parameterized property (Jet.getAttr[...]) and a class-level callback on a subclass whose method is inherited from an undecorated base (Muon.p); 8 call "
                            "sites, " + ("every subset of at most 3 of them and all 9 together" if tier == "quick" else "any subset of them present") + " (symbolic 9-bit mask), placed inside a nested Select over the jets (sites at depth 1 and 2), directly in the "
                            "stream lambda, or inside a Where nested in a SelectMany; symbolic: the mask, the first component of the parameter tuple of the parameterized call (unbounded int - the tuple must arrive by "
                            "value); oracle: invocation log equals the expected multiset with class before method, nothing fires for absent sites, "
                            "the MetaData tags on the args[0] chain of the result equal those of the fired callbacks and none is left inside the lambda, the rewrite and the "
                            "removal of [param] are in the emitted call")]
    r, so = base.run_s(PROP, tier, "other", jobs,
                       explanation="bounded symbolic execution (CrossHair/z3) of the callback machinery with a symbolic call-site mask and symbolic property parameters",
                       functions=["func_adl.type_based_replacement.type_transformer.process_method_callbacks/process_function_call/process_parameterized_method_call/"
                                  "process_method_call_on_stream_obj", "fixup_ast_from_modifications", "func_adl.util_ast.scan_for_metadata", "func_adl.object_stream.ObjectStream.Select/SelectMany/MetaData"],
                       bounds={"call_sites": 9, "subsets": "size <= 3 or all" if tier == "quick" else "all 512", "placements": 4, "nesting_depth": 2, "parameter_tuple": "(unbounded int, fixed str)"})
    r.coverage["not_symbolically_executed"] = list(r.coverage.get("not_symbolically_executed", [])) + ["queries that do not contain the parameterized call (no symbolic value in them) run without the tracer"]
    return r.finish()
