"""C19 - aggregate shortcuts lower to equivalent folds."""
from vlib import chrun, report, tvrun
from vlib.harness import base, tvbase
from vlib.skel import sources

PROP = "C19"


def s_jobs(tier):
    t = 120 if tier == "quick" else 600
    return [chrun.SJob("vlib.sh.c19b", "c19b", base.parts(8), t,
                       what="aggregate_node_transformer.visit on 8 positions; symbolic: function name (any str, len<=5), "
                            "positional count 0..3, keyword count 0..1; oracle: reference lowering (rewrite iff name in "
                            "{len,Count,Sum,Max,Min} and exactly one positional argument and no keyword)")]


def t_units(tier):
    N = 3 if tier == "quick" else 6
    us, n = tvbase.source_units(sources.AGG, ("x", "y"), "aggregate", N, "aggregate-family", nchunks=24)
    # generic grammar programs containing Count / Sum / Max / len in arbitrary positions
    mp = 8 if tier == "quick" else 10
    for a in range(3):
        us.append(dict(kind="grammar", form="fn", feats=["count", "sum", "first", "tuple"], stages=2, depth=2, maxpicks=mp, fixed=[a], schemes=["reuse"],
                       transformer="aggregate", N=min(N, 4)))
    for i in range(8 if tier == "quick" else 32):
        us.append(dict(kind="random", seed=report.seed() * 100 + i, count=100 if tier == "quick" else 600, form="fn", feats=["count", "sum", "first", "tuple", "bool", "ifexp"],
                       stages=2, depth=3, maxpicks=20, scheme="reuse", transformer="aggregate", N=min(N, 4)))
    return us, n


def run(tier):
    r = report.Run(PROP, tier, "translation_validation")
    r.assumptions += base.S_ASSUME
    so = chrun.run_jobs(s_jobs(tier))
    chrun.fold_into(r, so)
    base.finish_s(r, so, rule=base.S_RULE,
                  explanation="S part: bounded symbolic execution of aggregate_node_transformer with symbolic name/argument-count/keyword-count in 8 syntactic positions")
    r.coverage["bounds_s"] = {"name_len": 5, "positional_args": [0, 3], "keywords": [0, 1], "positions": 8}
    us, n = t_units(tier)
    res = tvrun.run_units(us)
    tvrun.fold_into(r, res, "aggregate_node_transformer on %d family instances + grammar/random programs with shortcuts; the emitted Aggregate folds are evaluated by R's left fold" % n)
    tvbase.finish_t(r, tier, ["func_adl.ast.aggregate_shortcuts.aggregate_node_transformer.visit_Call", "_generate_count_call"],
                    {"N_collection_length": 3 if tier == "quick" else 6, "integer_values": "unbounded"})
    return r.finish()


def replay(payload):
    if payload.get("engine") == "T":
        return tvrun.replay_payload(payload)
    return base.s_replay(payload)
