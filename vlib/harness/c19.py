"""C19 - aggregate shortcuts lower to equivalent folds."""
from vlib import chrun, report
from vlib.harness import base

PROP = "C19"


def s_jobs(tier):
    t = 120 if tier == "quick" else 600
    return [chrun.SJob("vlib.sh.c19b", "c19b", base.parts(8), t,
                       what="aggregate_node_transformer.visit on 8 positions; symbolic: function name (any str, len<=5), "
                            "positional count 0..3, keyword count 0..1; oracle: reference lowering (rewrite iff name in "
                            "{len,Count,Sum,Max,Min} and exactly one positional argument and no keyword)")]


def run(tier):
    r = report.Run(PROP, tier, "other")
    r.assumptions += base.S_ASSUME
    so = chrun.run_jobs(s_jobs(tier))
    chrun.fold_into(r, so)
    base.finish_s(r, so,
                  rule="one evaluation = one CrossHair execution path (a distinct sequence of branch decisions of the real code on symbolic inputs); "
                       "non-trivial = the path satisfied the preconditions and reached the call into func_adl (counted by the harness)",
                  explanation="bounded symbolic execution (CrossHair/z3) of func_adl.ast.aggregate_shortcuts.aggregate_node_transformer "
                              "with symbolic name/argument-count/keyword-count in 8 syntactic positions; verdict 'confirmed over all paths' per partition")
    r.coverage["functions_executed_symbolically"] = ["func_adl.ast.aggregate_shortcuts.aggregate_node_transformer.visit_Call", "func_adl.ast.aggregate_shortcuts._generate_count_call"]
    r.coverage["bounds"] = {"name_len": 5, "positional_args": [0, 3], "keywords": [0, 1], "positions": 8}
    return r.finish()


def replay(payload):
    rp = chrun.replay_native(payload["harness"], payload["fn"], payload["argstr"])
    print(rp)
    if "raised" in rp or "error" in rp:
        return 3
    return 1 if rp.get("returned") else 0
