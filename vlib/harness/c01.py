"""C01 - a fluent query means what the user's Python chain computes."""
from vlib import report, tvrun
from vlib.harness import tvbase

PROP = "C01"


def units(tier):
    N = 2 if tier == "quick" else 3
    n = 16 if tier == "quick" else 64
    cnt = 250 if tier == "quick" else 2000
    us = []
    for i in range(n):
        us.append(dict(kind="chains", typed=bool(i % 2), seed=report.seed() * 1000 + i, count=cnt, start=0, N=N, all_points=(tier == "thorough"), deep=(i == 0)))
    return us


def run(tier):
    r = report.Run(PROP, tier, "translation_validation")
    us = units(tier)
    res = tvrun.run_units(us)
    tvrun.fold_into(r, res, "generated modules: fluent chains of 1-3 Select/Where/SelectMany stages (+ a sibling branch from the dataset, + result-format terminals) on an untyped and "
                            "a typed dataset; lambdas as callables / source strings / ast.Lambda; bodies with method calls with defaults (positional, keyword, omitted), "
                            "arithmetic, comparisons, conditionals, tuples, dataclass/NamedTuple records, nested Select/Where/SelectMany/First/Count, single-for comprehensions, "
                            "captured local/global/class constants and one-line helpers; the AST value_async() hands to the executor and the AST after the backend passes are "
                            "compared with the truth (the chain as written, captured values substituted)")
    c = r.coverage
    c["chains_generated"] = getattr(res, "cases", 0)
    c["designed_refusals_skipped"] = getattr(res, "refused", 0)
    c["python_chain_runs_validating_the_truth_ast"] = getattr(res, "py_chain_runs", 0)
    if c["chains_generated"] and c["designed_refusals_skipped"] > 0.25 * c["chains_generated"]:
        r.harness_error("more than a quarter of the generated chains were refused by the library")
    tvbase.finish_t(r, tier, ["func_adl.object_stream.ObjectStream.Select/Where/SelectMany/As*/value_async", "func_adl.util_ast.parse_as_ast (+capture, helper inlining)",
                              "func_adl.ast.syntatic_sugar.resolve_syntatic_sugar", "func_adl.type_based_replacement.remap_from_lambda", "func_adl.ast.meta_data.remove_empty_metadata",
                              "change_extension_functions_to_calls", "aggregate_node_transformer", "simplify_chained_calls"],
                    {"N_collection_length": 2 if tier == "quick" else 3, "stages": [1, 3], "comparison_points": 2 if tier == "quick" else 4})
    r.assumptions.append("method calls are interpreted through inspect.Signature binding on both sides, so a call with an omitted default means the same as the filled call")
    r.assumptions.append("the truth AST of every chain is validated by running the generated chain itself (real lambdas) with CPython on a model dataset")
    return r.finish()


def replay(payload):
    print("re-run ./vf check C01 with VERIF_SEED to reproduce; payload carries the generated chain:\n" + payload.get("build", payload.get("program", "")))
    return 1
