"""C08 - type following yields the declared types."""
from vlib import chrun
from vlib.harness import base

PROP = "C08"
replay = base.s_replay


def run(tier):
    from vlib.sh import c08 as h
    t = 300 if tier == "quick" else 900
    jobs = [
        chrun.SJob("vlib.sh.c08", "c08a", base.parts(h.NTABLE, 5), t,
                   what="remap_by_types on %d typed expressions" % h.NTABLE + " over a class model with inheritance, Generic[T] with concrete and generic subclasses, a class deriving "
                        "directly from Generic, a custom Iterable subclass, a registered collection class adding operators, dataclass fields, methods without return "
                        "annotation: method chains, nested Select/Where/SelectMany to depth 3, First, subscript, Count/len, comparisons, and/or/not, unary minus, "
                        "conditionals, dict / tuple literals with field access; oracle: the type the annotations imply (written next to each expression)"),
        chrun.SJob("vlib.sh.c08", "c08b", base.parts(8), t,
                   what="arithmetic / conditional / comparison typing: symbolic choice of both operand kinds (7: int/float/Any methods, int and float constants, "
                        "inherited int method, Count), operator (+ - * / %), form, and the constant's value (unbounded int); oracle: int/float promotion rules"),
        chrun.SJob("vlib.sh.c08", "c08c", base.parts(h.NSTREAM, 3), t,
                   what="ObjectStream.Select/SelectMany/Where item types on the typed dataset and on streams derived one or two steps earlier (incl. dictionary and "
                        "dataclass items); Where with a non-boolean filter must raise ValueError"),
    ]
    r, so = base.run_s(PROP, tier, "other", jobs,
                       explanation="bounded symbolic execution (CrossHair/z3) of the type follower over a table of typed expressions and a solver-split promotion table; "
                                   "this harness is structure-dominated: the solver's contribution is exhaustiveness of the decoded space and the promotion rules for every constant value",
                       functions=["func_adl.type_based_replacement.remap_by_types (type_transformer.visit_*, process_method_call, type_follow_in_callbacks)",
                                  "func_adl.util_types.get_method_and_class/resolve_type_vars/build_type_dict_from_type/get_inherited/is_iterable/unwrap_iterable",
                                  "func_adl.object_stream.ObjectStream.Select/SelectMany/Where"],
                       bounds={"expressions": h.NTABLE, "operand_kinds": 8, "operators": 5, "stream_cases": h.NSTREAM, "nesting_depth": 3})
    return r.finish()
