"""C16 - query-level metadata accumulates, is inherited, and never reaches a backend."""
from vlib import chrun
from vlib.harness import base

PROP = "C16"
replay = base.s_replay


def run(tier):
    jobs = [chrun.SJob("vlib.sh.c16", "c16", base.parts(49), 300 if tier == "quick" else 900,
                       what="histories of 3 operations over 7 kinds (QMetaData one key a / one key b / two keys {a,c}; Select; Where; MetaData; "
                            "SelectMany), every parent choice (any earlier stream incl. the dataset root => branching); symbolic: the three "
                            "metadata values (unbounded ints, so equal/different repeats are both covered). After every step the new stream, "
                            "after the last step every live stream, is looked up for all 3 keys against a reference map; all streams are executed "
                            "and the received AST / ast.dump / calc_ast_hash compared with the twin history without the QMetaData steps")]
    jobs.append(chrun.SJob("vlib.sh.c16", "c16w", base.parts(64), 300 if tier == "quick" else 900,
                           what="linear histories of 5 steps: three QMetaData calls (each of 4 kinds: key a, key b, keys {a,c}, key a set to None) separated by a Select or a MetaData, so that every call annotates "
                                "another node; 3 unbounded int values (equal / different in every pattern, e.g. a key that goes back to an earlier value); same oracles"))
    if tier == "thorough":
        jobs.append(chrun.SJob("vlib.sh.c16", "c16k4", base.parts(125), 1200,
                               what="histories of 4 operations over 5 kinds (3 QMetaData kinds, Select, MetaData), all parent choices, 4 unbounded int values"))
    r, so = base.run_s(PROP, tier, "model_checking", jobs,
                       explanation="bounded model checking of QMetaData histories by symbolic execution (CrossHair/z3): operation codes and parents are "
                                   "enumerated by solver-checked case splits, values are unbounded solver variables",
                       functions=["func_adl.object_stream.ObjectStream.QMetaData", "func_adl.ast.meta_data.lookup_query_metadata (_finder.generic_visit)"],
                       bounds={"history_length": 3 if tier == "quick" else 4, "op_kinds": 7, "keys": 3, "values": "unbounded int"},
                       extra_assumptions=["formatting of symbolic numbers into log/error message text is stubbed to a placeholder (messages are not modelled)"],
                       not_traced=["Select/Where/MetaData/SelectMany derivations and value_async()+remove_empty_metadata+ast.dump+calc_ast_hash of the final "
                                   "streams run concretely on the real code under NoTracing (no metadata value is consulted there; if a change makes them "
                                   "consult one CrossHair raises, which is reported and decided by the native replay)"])
    return r.finish()
