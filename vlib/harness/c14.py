"""C14 - intermediate tuples and dictionaries are compiled away."""
from vlib import chrun
from vlib.harness import base

PROP = "C14"
replay = base.s_replay


def run(tier):
    fn, t = ("c14", 400) if tier == "quick" else ("c14t", 1800)
    jobs = [chrun.SJob("vlib.sh.c14", fn, base.parts(104), t,
                       what="simplify_chained_calls on 8 packaging kinds (tuple, list, dict, tuple-in-tuple, tuple/dict mixed nesting, sequence+scalar in tuple, "
                            "sequence+scalar in dict, dict with integer keys) x 13 consumer chains (three SelectMany stages with the packages taken apart in the last one / Select / Where+Select / repackaging middle stage / SelectMany or double Where / nested "
                            "Select over the packaged sequence referring to another packaged field / three stages with a final result tuple / nested chain whose Where looks only at another packaged field / SelectMany packaging per inner element taken apart by a second SelectMany / two SelectMany levels taken apart by a Select / a pass-through Select(x -> x) in the middle / First of a packaging SelectMany projected afterwards / a packaged First(...) read by attribute in a later stage) x " + ("2 binder naming schemes (all identical, partial re-use)" if tier == "quick" else "3 binder naming schemes (distinct, all identical, partial re-use)") + "; "
                            " symbolic: tuple arity 1..3, projected index, two distinct dictionary key strings "
                            "(any str, len<=%d, used as ['k'] and as .k)%s; oracle: no Tuple/List/Dict node and no constant Subscript remains outside the final result"
                            % ((2, "") if tier == "quick" else (3, ", function and method form")))]
    r, so = base.run_s(PROP, tier, "other", jobs,
                       explanation="bounded symbolic execution (CrossHair/z3) of the real simplifier on packaging/projection chains with symbolic arity, index and key strings",
                       functions=["func_adl.ast.function_simplifier.simplify_chained_calls (visit_Call, call_Select/Where/SelectMany, visit_*_of_*, visit_Subscript*, visit_Attribute, convolute, make_args_unique)"],
                       bounds={"packaging_kinds": 8, "consumers": 13, "naming_schemes": 2 if tier == "quick" else 3, "arity": [1, 3], "key_len": 2 if tier == "quick" else 3},
                       not_traced=["residue scan of the simplified tree (harness side)"])
    return r.finish()
