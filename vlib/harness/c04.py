"""C04 - captured variables are frozen by value at the call, respecting scope."""
from vlib import chrun
from vlib.harness import base

PROP = "C04"
replay = base.s_replay


def run(tier):
    jobs = [chrun.SJob("vlib.sh.c04", "c04", base.parts(20), 400 if tier == "quick" else 1200,
                       what="global_getclosurevars + _rewrite_captured_vars + _resolve_called_lambdas + check_ast on 20 lambda shapes (free name in a closure cell / module "
                            "global / nested class attribute / module attribute; the same name shadowed by the lambda's own parameter, a nested lambda's parameter, a called "
                            "lambda's parameter, a comprehension target, at nesting depth 0-2, used before / inside / after the shadowing scope; keyword arguments, default "
                            "values, uncaptured names); the closure is a real one obtained by calling a compiled factory with the symbolic value; symbolic: the captured "
                            "value as Union[int (unbounded), bool, str (len<=3), float, bytes (len<=3)] or one of 6 non-transportable stand-ins, the other captured ints, "
                            "and a post-call history (rebind the cell and globals / rebind everything / delete); oracle: scope analysis done by the harness - exactly the "
                            "free occurrences become Constants holding the value itself, ValueError exactly for non-transportable values, nothing changes after rebinding")]
    r, so = base.run_s(PROP, tier, "other", jobs,
                       explanation="bounded symbolic execution (CrossHair/z3) of the capture rewriting on real closures with symbolic cell / global / class-attribute contents",
                       functions=["func_adl.util_ast.global_getclosurevars", "_rewrite_captured_vars (visit_Name, visit_Attribute, visit_Lambda, comprehension scopes, visit_Call, is_arg)",
                                  "_resolve_called_lambdas", "check_ast"],
                       bounds={"shapes": 20, "history_length": 1, "str_len": 3, "int": "unbounded"},
                       extra_assumptions=["source recovery (C03) is skipped: the lambda's AST is handed to the rewriter directly; the end-to-end path through ObjectStream.Select with "
                                          "real lambdas and captured constants is exercised by C01's generated modules"])
    return r.finish()
