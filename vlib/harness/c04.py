"""C04 - captured variables are frozen by value at the call, respecting scope."""
from vlib import chrun
from vlib.harness import base

PROP = "C04"
replay = base.s_replay


def run(tier):
    jobs = [chrun.SJob("vlib.sh.c04", "c04", base.parts(34), 400 if tier == "quick" else 1200,
                       what="global_getclosurevars + _rewrite_captured_vars + _resolve_called_lambdas + check_ast on 34 lambda shapes (free name in a closure cell / module "
                            "global / nested class attribute / module attribute; the same name shadowed by the lambda's own parameter, a nested lambda's parameter, a called "
                            "lambda's parameter, a comprehension target, at nesting depth 0-2, used before / inside / after the shadowing scope; keyword arguments, default "
                            "values, uncaptured names); the closure is a real one obtained by calling a compiled factory with the symbolic value; symbolic: the captured "
                            "value as Union[int (unbounded), bool, str (len<=3), float, bytes (len<=3)] or one of 6 non-transportable stand-ins, the other captured ints, "
                            "and a post-call history (rebind the cell and globals / rebind everything / delete); oracle: scope analysis done by the harness - exactly the "
                            "free occurrences become Constants holding the value itself, ValueError exactly for non-transportable values, nothing changes after rebinding")]
    r, so = base.run_s(PROP, tier, "other", jobs,
                       explanation="bounded symbolic execution (CrossHair/z3) of the capture rewriting on real closures with symbolic cell / global / class-attribute contents",
                       functions=["func_adl.util_ast.global_getclosurevars", "_rewrite_captured_vars (visit_Name, visit_Attribute, visit_Lambda, comprehension scopes, visit_Call, is_arg)",
                                  "_resolve_called_lambdas", "check_ast"],
                       bounds={"shapes": 34, "history_length": 1, "str_len": 3, "int": "unbounded"},
                       extra_assumptions=["source recovery (C03) is skipped: the lambda's AST is handed to the rewriter directly; the end-to-end path through ObjectStream.Select with "
                                          "real lambdas and captured constants is exercised by C01's generated modules"])
    try:
        history_side_check(r)
    except Exception as e:  # noqa
        r.harness_error("history side check crashed: %r" % (e,))
    return r.finish()


def history_side_check(r):
    """Through the whole acquisition path (real lambdas in a real file, parse_as_ast / ObjectStream.Select): the same lambda code is used
    repeatedly while the captured names are rebound - every query must carry the value at the moment of ITS call.  Concrete (needs
    source files); complements the symbolic part, which hands the lambda's AST to the rewriter directly."""
    import ast
    from vlib import srcgen
    text = '''
from func_adl import EventDataset


class DS(EventDataset):
    async def execute_result_async(self, a, title=None):
        return a


G = 1


class K:
    C = 1


def by_closure(ds, cut):
    return ds.Where(
        lambda e: e.pt > cut
    )


def by_global(ds):
    return ds.Select(
        lambda e: e.pt + G
    )


def by_class(ds):
    return ds.SelectMany(
        lambda e: e.jets.Where(lambda j: j.pt > K.C)
    )


def loop(ds, values):
    out = []
    for v in values:
        out.append(ds.Select(
            lambda e: e.x * v
        ))
    return out
'''
    n = 0
    with srcgen.Scratch() as sc:
        mod = sc.load(text, "c04hist")

        def consts(st):
            return [c.value for c in ast.walk(st.query_ast.args[1]) if isinstance(c, ast.Constant)]
        seen = []
        for cut in (30.0, 50.0, 30.0, 7):
            st = mod.by_closure(mod.DS(), cut)
            seen.append((st, cut))
            n += 1
        for st, cut in seen:
            if consts(st) != [cut]:
                r.violation("closure variable: query built with cut=%r carries %r" % (cut, consts(st)), {"engine": "concrete", "program": "by_closure", "expected": cut, "got": consts(st)})
        built = []
        for g in (1, 1000, -5):
            mod.G = g
            mod.K.C = g + 1
            built.append((mod.by_global(mod.DS()), [g], mod.by_class(mod.DS()), [g + 1]))
            n += 2
        del mod.G
        for a, ea, b, eb in built:
            if consts(a) != ea or consts(b) != eb:
                r.violation("global / class constant: query carries %r / %r, expected %r / %r" % (consts(a), consts(b), ea, eb),
                            {"engine": "concrete", "program": "by_global/by_class"})
        sts = mod.loop(mod.DS(), [2, 3, 5])
        n += 3
        if [consts(s) for s in sts] != [[2], [3], [5]]:
            r.violation("loop variable: queries carry %r, expected [[2], [3], [5]]" % [consts(s) for s in sts], {"engine": "concrete", "program": "loop"})
    r.coverage["concrete_history_queries"] = n
