"""C15 - MetaData extraction and empty-metadata removal are exact."""
from vlib import chrun
from vlib.harness import base

PROP = "C15"
replay = base.s_replay


def run(tier):
    t = 150 if tier == "quick" else 900
    jobs = [chrun.SJob("vlib.sh.c15", "c15", base.parts(12), t,
                       what="extract_metadata and remove_empty_metadata on 4 wrapper placements x 4 wrappers; symbolic: size of each "
                            "dictionary (0..2), an int value (unbounded) and a str value (len<=2); oracle: reference stripper, "
                            "input snapshot by node identity, outer-before-inner order of the extracted list")]
    r, so = base.run_s(PROP, tier, "other", jobs,
                       explanation="bounded symbolic execution (CrossHair/z3) of extract_metadata / remove_empty_metadata; dictionary sizes and values are solver variables",
                       functions=["func_adl.ast.meta_data.extract_metadata", "func_adl.ast.meta_data._extract_metadata.visit_Call",
                                  "func_adl.ast.meta_data.remove_empty_metadata", "_cleaner.visit_Call", "_cleaner.generic_visit"],
                       bounds={"wrappers": 4, "dict_size": [0, 2], "placements": 4, "int_value": "unbounded", "str_len": 2},
                       not_traced=["harness-side reference stripper and identity snapshot (run under NoTracing; they never branch on symbolic values)"])
    return r.finish()
