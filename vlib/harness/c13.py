"""C13 - Python values embedded in a query keep their exact value."""
from vlib import chrun
from vlib.harness import base

PROP = "C13"
replay = base.s_replay


def run(tier):
    fa, t = ("c13a", 300) if tier == "quick" else ("c13a3", 2400)
    jobs = [
        chrun.SJob("vlib.sh.c13", fa, base.parts(34), t,
                   what="as_ast-based entry points (as_ast, MetaData value/key, AsPandasDF/AsROOTTTree/AsParquetFiles/AsAwkwardArray column, file and tree "
                        "names) x value kinds {str, int, float, bool, None, bytes, list, tuple, dict, nested, one-item tuple, one-item and empty tuples inside containers}; strings over a 20-character class alphabet "
                        "(quotes, backslash, newline, CR, NUL, escapes letters, brackets, operators, '#', unicode BMP/astral, tab, DEL) of length <=%d, ints and "
                        "floats from edge tables (the text reaches the C parser, so they are case-split, not unbounded); oracle: ast.literal_eval gives an equal "
                        "value of the same type" % (2 if tier == "quick" else 3)),
        chrun.SJob("vlib.sh.c13", "c13b", base.parts(7), t,
                   what="as_literal-based entry points (declared default of a method at depth 0 and inside a nested typed collection lambda, default of a "
                        "func_adl_callable function, captured closure variable, captured global; through the whole public path with real function objects: a closure variable used only "
                        "inside the lambda of a nested Select on an untyped sequence, a global read by a function object that is handed over a second time after the global changed); symbolic: the value as Union[int (unbounded), bool, "
                        "str (len<=3), float, bytes (len<=3)] plus 7 concrete non-scalar stand-ins; oracle: ValueError only for non-transportable kinds, every "
                        "emitted Constant transportable, the embedded constant is the value itself"),
    ]
    r, so = base.run_s(PROP, tier, "other", jobs,
                       explanation="bounded symbolic execution (CrossHair/z3) of the value-embedding entry points; values that reach CPython's C parser are bounded "
                                   "and case-split, values embedded as ast.Constant stay fully symbolic",
                       functions=["func_adl.util_ast.as_ast", "func_adl.util_ast.as_literal", "func_adl.object_stream.ObjectStream.MetaData/AsPandasDF/AsROOTTTree/AsParquetFiles/AsAwkwardArray",
                                  "func_adl.type_based_replacement._fill_in_default_arguments", "func_adl.util_ast._rewrite_captured_vars.visit_Name", "func_adl.util_ast.check_ast"],
                       bounds={"alphabet": 20, "str_len_parser_path": 2 if tier == "quick" else 3, "str_len_constant_path": 3, "int_constant_path": "unbounded"},
                       extra_assumptions=["'all strings' is NOT claimed: the claim is all strings over the class alphabet up to the stated length (ast.parse is C code)",
                                          "builtin callable() answers False for symbolic scalars without realising them (worker-side model refinement)"],
                       not_traced=["ast.literal_eval of the emitted node and the typed comparison (harness side)", "ast.parse / compile (C)"])
    return r.finish()
