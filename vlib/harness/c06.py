"""C06 - comprehension and data-class sugar lowers to equivalent queries."""
import ast

from vlib import chrun, report, tvrun
from vlib.harness import base, tvbase
from vlib.skel import sources

PROP = "C06"


def s_jobs(tier):
    return [chrun.SJob("vlib.sh.c06b", "c06b", base.parts(20), 300 if tier == "quick" else 900,
                       what="resolve_syntatic_sugar on constructor calls of 6 dataclasses (incl. one with an init=False field and one with a keyword-only field) and 4 NamedTuples (1..4 fields, with and without defaults) at the top of "
                            "a lambda body and nested in a tuple inside an inner lambda; symbolic: number of positional arguments (incl. one surplus), keyword mask, "
                            "keyword order, an unknown keyword, the argument values (unbounded ints); oracle: each supplied argument appears under the field Python "
                            "binds it to, surplus/unknown arguments raise ValueError")]


def malformed_side_check(r):
    "tuple targets and async comprehensions must raise ValueError (concrete: two fixed syntactic forms)"
    from func_adl.ast.syntatic_sugar import resolve_syntatic_sugar
    n = 0
    for src in ("lambda e: [a + b for a, b in e.pairs]", "lambda e: [a async for a in e.js]", "lambda e: (a for (a, b) in e.pairs if a > 1)"):
        n += 1
        try:
            resolve_syntatic_sugar(ast.parse(src).body[0].value)
            r.violation("malformed comprehension accepted: " + src, {"engine": "concrete", "program": src})
        except ValueError:
            pass
        except Exception as e:  # noqa
            r.violation("malformed comprehension raised %s instead of ValueError: %s" % (type(e).__name__, src), {"engine": "concrete", "program": src})
    r.coverage["concrete_malformed_forms"] = n


def t_units(tier):
    N = 2 if tier == "quick" else 3
    us, n = tvbase.source_units(sources.COMPS, ("x", "y"), "sugar", N, "comprehension-family", nchunks=12, rtypes={})
    mp = 9 if tier == "quick" else 11
    for form in ("fn", "meth"):
        for a in range(3):
            us.append(dict(kind="grammar", form=form, feats=["comp", "first", "count", "tuple"], stages=2, depth=2, maxpicks=mp, fixed=[a], schemes=["reuse"],
                           transformer="sugar", N=N))
    for i in range(12 if tier == "quick" else 48):
        us.append(dict(kind="random", seed=report.seed() * 100 + i, count=150 if tier == "quick" else 800, form=["fn", "mix"][i % 2],
                       feats=["comp", "first", "count", "tuple", "dict", "bool", "ifexp", "calllam", "nested", "sum"], stages=2, depth=3, maxpicks=24, scheme="reuse",
                       transformer="sugar", N=N))
    return us, n


def run(tier):
    r = report.Run(PROP, tier, "translation_validation")
    r.assumptions += base.S_ASSUME
    so = chrun.run_jobs(s_jobs(tier))
    chrun.fold_into(r, so)
    base.finish_s(r, so, rule=base.S_RULE, explanation="S part: bounded symbolic execution of the constructor lowering against Python's own argument binding")
    us, n = t_units(tier)
    res = tvrun.run_units(us)
    tvrun.fold_into(r, res, "resolve_syntatic_sugar on %d comprehension family instances + grammar/random programs containing list comprehensions and generator expressions "
                            "(0..2 ifs, nested in element / iterable / condition position and inside operator lambdas); R gives comprehensions Python's meaning" % n)
    tvbase.finish_t(r, tier, ["func_adl.ast.syntatic_sugar.resolve_syntatic_sugar (resolve_generator, visit_ListComp, visit_GeneratorExp, visit_Call, convert_call_to_dict)"],
                    {"N_collection_length": 2 if tier == "quick" else 3, "ifs": [0, 3], "fields": [1, 4]})
    malformed_side_check(r)
    return r.finish()


def replay(payload):
    if payload.get("engine") == "T":
        return tvrun.replay_payload(payload)
    return base.s_replay(payload)
