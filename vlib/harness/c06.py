"""C06 - comprehension and data-class sugar lowers to equivalent queries."""
import ast

from vlib import chrun, report, tvrun
from vlib.harness import base, tvbase
from vlib.skel import sources

PROP = "C06"


def s_jobs(tier):
    return [chrun.SJob("vlib.sh.c06b", "c06b", base.parts(30), 300 if tier == "quick" else 900,
                       what="resolve_syntatic_sugar on constructor calls of 6 dataclasses (incl. one with an init=False field and one with a keyword-only field) and 4 NamedTuples (1..4 fields, with and without defaults) at the top of "
                            "a lambda body and nested in a tuple inside an inner lambda; symbolic: number of positional arguments (incl. one surplus), keyword mask, "
                            "keyword order, an unknown keyword, a starred last positional argument, the argument values (unbounded ints); oracle: each supplied argument appears under the field Python "
                            "binds it to, surplus/unknown arguments raise ValueError")]


def malformed_side_check(r):
    "tuple targets and async comprehensions must raise ValueError (concrete: two fixed syntactic forms)"
    from func_adl.ast.syntatic_sugar import resolve_syntatic_sugar
    n = 0
    for src in ("lambda e: [a + b for a, b in e.pairs]", "lambda e: [a async for a in e.js]", "lambda e: (a for (a, b) in e.pairs if a > 1)"):
        n += 1
        try:
            resolve_syntatic_sugar(ast.parse(src).body[0].value)
            r.violation("malformed comprehension accepted: " + src, {"engine": "concrete", "program": src})
        except ValueError:
            pass
        except Exception as e:  # noqa
            r.violation("malformed comprehension raised %s instead of ValueError: %s" % (type(e).__name__, src), {"engine": "concrete", "program": src})
    r.coverage["concrete_malformed_forms"] = n


def redefinition_side_check(r):
    """History: a dataclass / NamedTuple is lowered, then ANOTHER class with the same name (same module and qualified name: a re-run
    notebook cell, make_dataclass called again) with other fields is lowered: every constructor call must be bound against the class it
    actually names at that moment.  Concrete; the oracle is inspect.signature(cls).bind of the live class."""
    import dataclasses
    import inspect
    from typing import NamedTuple
    from func_adl.ast.syntatic_sugar import resolve_syntatic_sugar
    n = 0

    def lower(cls, call_src):
        tree = ast.parse("lambda e: " + call_src, mode="eval").body

        class _bind(ast.NodeTransformer):
            def visit_Name(self, node):
                return ast.Constant(cls) if node.id == "Row" else node
        tree = _bind().visit(tree)
        return resolve_syntatic_sugar(tree).body

    def expect(cls, call_src):
        call = ast.parse(call_src, mode="eval").body
        ba = inspect.signature(cls).bind_partial(*[ast.unparse(a) for a in call.args], **{k.arg: ast.unparse(k.value) for k in call.keywords})
        return dict(ba.arguments)

    generations = [
        [("pt", int), ("eta", int)],
        [("eta", int), ("pt", int), ("phi", int)],
        [("phi", int)],
        [("pt", int), ("eta", int)],
    ]
    calls = ["Row(e.a, e.b)", "Row(e.a, e.b, e.c)", "Row(pt=e.a, eta=e.b)", "Row(e.a)", "Row(e.a, phi=e.c, pt=e.b)", "Row(phi=e.a)"]
    for kind in ("dataclass", "namedtuple"):
        for fields in generations:
            if kind == "dataclass":
                cls = dataclasses.make_dataclass("Row", fields)
            else:
                cls = NamedTuple("Row", fields)
            cls.__module__ = __name__
            cls.__qualname__ = "Row"
            for c in calls:
                n += 1
                try:
                    want = expect(cls, c)
                except TypeError:
                    want = None
                try:
                    got = lower(cls, c)
                except ValueError:
                    got = None
                except Exception as e:  # noqa
                    r.violation("%s Row%r: %s raised %s" % (kind, [f for f, _ in fields], c, type(e).__name__), {"engine": "concrete", "program": c})
                    continue
                if want is None:
                    if got is not None:
                        r.violation("%s Row%r: %s does not bind in python but was lowered to %s" % (kind, [f for f, _ in fields], c, ast.unparse(got)), {"engine": "concrete", "program": c})
                    continue
                if got is None:
                    r.violation("%s Row%r: %s binds in python but was refused" % (kind, [f for f, _ in fields], c), {"engine": "concrete", "program": c, "history": "same-named class redefined"})
                    continue
                gd = {k.value: ast.unparse(v) for k, v in zip(got.keys, got.values)} if isinstance(got, ast.Dict) else None
                if gd != want:
                    r.violation("%s Row%r: %s lowered to %s, python binds %r" % (kind, [f for f, _ in fields], c, ast.unparse(got), want),
                                {"engine": "concrete", "program": c, "history": "same-named class redefined"})
    r.coverage["concrete_redefinition_history_calls"] = n


def t_units(tier):
    N = 2 if tier == "quick" else 3
    us, n = tvbase.source_units(sources.COMPS, ("x", "y"), "sugar", N, "comprehension-family", nchunks=12, rtypes={})
    mp = 9 if tier == "quick" else 11
    # through the whole acquisition path (real lambdas in a generated module): loop variables that have the name of a module-level
    # constant, re-used by a nested comprehension / lambda, and used again afterwards
    cap = ["lambda e: [(len([x for x in e.si_hits if x > 1]), x) for x in e.si_hits]",
           "lambda e: e.so_jets.Select(lambda x: (len([x for x in x.si_hits]), x))",
           "lambda e: [x for x in e.si_hits if len([x for x in e.si_hits if x < y]) > 1 if x > y]",
           "lambda e: [(len([x + y for x in e.si_hits if x > 1]), x) for x in e.si_hits if x < y]",
           "lambda x: ([x.i_pt for x in x.so_jets], x.i_eta, [y for y in x.si_hits if y > x.i_eta], y)",
           "lambda e: sum(x + y for x in e.si_hits if x > y) + len([y for y in e.si_hits]) + y"]
    us.append(dict(kind="helpers", N=N, label="comprehension-captured-names", cases=[dict(helpers="x = 3\ny = 4\n", lam=c, names=["x", "y"]) for c in cap]))
    for form in ("fn", "meth"):
        for a in range(3):
            us.append(dict(kind="grammar", form=form, feats=["comp", "first", "count", "tuple"], stages=2, depth=2, maxpicks=mp, fixed=[a], schemes=["reuse"],
                           transformer="sugar", N=N))
    for i in range(12 if tier == "quick" else 48):
        us.append(dict(kind="random", seed=report.seed() * 100 + i, count=150 if tier == "quick" else 800, form=["fn", "mix"][i % 2],
                       feats=["comp", "first", "count", "tuple", "dict", "bool", "ifexp", "calllam", "nested", "sum"], stages=2, depth=3, maxpicks=24, scheme="reuse",
                       transformer="sugar", N=N))
    return us, n


def run(tier):
    r = report.Run(PROP, tier, "translation_validation")
    r.assumptions += base.S_ASSUME
    so = chrun.run_jobs(s_jobs(tier))
    chrun.fold_into(r, so)
    base.finish_s(r, so, rule=base.S_RULE, explanation="S part: bounded symbolic execution of the constructor lowering against Python's own argument binding")
    us, n = t_units(tier)
    res = tvrun.run_units(us)
    tvrun.fold_into(r, res, "resolve_syntatic_sugar on %d comprehension family instances + grammar/random programs containing list comprehensions and generator expressions "
                            "(0..2 ifs, nested in element / iterable / condition position and inside operator lambdas); R gives comprehensions Python's meaning" % n)
    tvbase.finish_t(r, tier, ["func_adl.ast.syntatic_sugar.resolve_syntatic_sugar (resolve_generator, visit_ListComp, visit_GeneratorExp, visit_Call, convert_call_to_dict)"],
                    {"N_collection_length": 2 if tier == "quick" else 3, "ifs": [0, 3], "fields": [1, 4]})
    malformed_side_check(r)
    try:
        redefinition_side_check(r)
    except Exception as e:  # noqa
        r.harness_error("redefinition side check crashed: %r" % (e,))
    return r.finish()


def replay(payload):
    if payload.get("engine") == "T":
        return tvrun.replay_payload(payload)
    return base.s_replay(payload)
