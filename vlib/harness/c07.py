"""C07 - typed call sites are normalised to full positional form."""
from vlib import chrun
from vlib.harness import base

PROP = "C07"
replay = base.s_replay


def run(tier):
    t = 300 if tier == "quick" else 900
    jobs = [chrun.SJob("vlib.sh.c07", "c07", base.parts(45), t,
                       what="remap_by_types on 15 call-site positions (call site on the outer variable after a nested lambda that re-used its name for another class; static methods; signatures ending in *rest / **opts; call site in a lambda handed to Where by keyword inside the stream lambda; method of a class whose receiver is not called self; registered functions with a parameter called self; method on the result of a registered function whose own call is normalised, and inside a Select over a collection such a function returns; method on the event; method inside a Select lambda over Iterable[Jet]; second nested level with "
                            "the lambda parameter name re-used and a same-named method of another class whose parameters are named in another order; method inside a "
                            "Where lambda on a dictionary field of a previous Select; method of a registered collection class; func_adl_callable function at depth 0; "
                            "function inside a nested Where lambda) x signatures with 1..3 parameters; symbolic: number of declared defaults, number of positional "
                            "arguments, keyword mask, keyword order (all permutations), the argument values and the declared default values (unbounded ints placed "
                            "in __defaults__); oracle: inspect.Signature.bind + apply_defaults (TypeError => ValueError expected); stream operator calls inside "
                            "the lambdas must keep their argument counts")]
    r, so = base.run_s(PROP, tier, "other", jobs,
                       explanation="bounded symbolic execution (CrossHair/z3) of the type follower's call normalisation against Python's own signature binding",
                       functions=["func_adl.type_based_replacement.remap_by_types", "_fill_in_default_arguments", "_find_keyword", "fixup_ast_from_modifications",
                                  "type_transformer.process_method_call/process_function_call/process_method_call_on_stream_obj", "func_adl.object_stream.ObjectStream.Select/Where (nested)"],
                       bounds={"parameters": [1, 3], "positions": 15, "values": "unbounded int", "defaults": "unbounded int", "keyword_permutations": "all"},
                       extra_assumptions=["formatting of symbolic numbers / ast nodes into message text is stubbed (messages are not modelled)",
                                          "default values are transportable ints; non-literal defaults are only exercised through the library's own known_types={}"])
    return r.finish()
