"""C11 - streams are immutable values."""
from vlib import chrun
from vlib.harness import base

PROP = "C11"
replay = base.s_replay


def run(tier):
    if tier == "quick":
        jobs = [chrun.SJob("vlib.sh.c11", "c11", base.parts(36), 400,
                           what="histories of 3 operations over 6 kinds (Where with one Python function OBJECT - a one-line def - shared by all steps and used on streams of different item types, its source being recovered from the harness file; Select with lambda ASTs shared between steps - on the typed dataset the lambda has a nested "
                                "typed Select whose call gets a default filled in and patched back; MetaData({}); MetaData({'a':1}); QMetaData({'k':v}); "
                                "execute with value_async) on a forest rooted in an untyped and a typed dataset, every parent choice; "
                                "symbolic: operation codes, parents, the metadata value; after every step the identity+structure snapshot and item type of "
                                "every live stream must be unchanged")]
    else:
        jobs = [chrun.SJob("vlib.sh.c11", "c11t", base.parts(144), 1500,
                           what="histories of 3 operations over 12 kinds (the 6 of the quick tier + AsAwkwardArray + Select with a shared Python lambda object, Where, SelectMany, Select with a history constant in the lambda, "
                                "Select building a dict/tuple), every parent choice"),
                chrun.SJob("vlib.sh.c11", "c11k4", base.parts(125), 1500,
                           what="histories of 4 operations over 5 kinds (Select, MetaData({}), QMetaData, execute, Where with the shared one-line def), every parent choice for the first two steps, one of the two newest streams for the last two")]
    r, so = base.run_s(PROP, tier, "model_checking", jobs,
                       explanation="bounded model checking of derive/execute histories by symbolic execution (CrossHair/z3): operation codes and parents are solver-split, "
                                   "the whole library path (parse, sugar, type following, fix-ups, metadata cleaning) runs traced",
                       functions=["func_adl.object_stream.ObjectStream.Select/Where/SelectMany/MetaData/QMetaData/AsAwkwardArray/value_async/clone_with_new_ast",
                                  "func_adl.ast.meta_data.remove_empty_metadata", "func_adl.type_based_replacement.remap_from_lambda/fixup_ast_from_modifications"],
                       bounds={"history_length": 3 if tier == "quick" else 4, "op_kinds": 6 if tier == "quick" else 12, "datasets": 2},
                       not_traced=["snapshots (node identity + field structure) and their comparison", "the two operations that hand over a Python function object (source recovery through inspect/tokenize; no symbolic value reaches them)", "value() through make_sync (threads) - value_async is stepped by hand instead"])
    return r.finish()
