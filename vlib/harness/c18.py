"""C18 - simplification is total on well-formed queries."""
from vlib import chrun, report, tvrun
from vlib.harness import base, tvbase
from vlib.skel import sources

PROP = "C18"


def s_jobs(tier):
    t = 360 if tier == "quick" else 900
    return [chrun.SJob("vlib.sh.c18a", "c18a", base.parts(24), t,
                       what="simplify_chained_calls on a literal projection in 4 positions (direct, after Select-Select fusion, behind First(), inside a Where "
                            "predicate over a packaged Select) x 5 container kinds (tuple, list, dict with str keys, dict with int keys, dict with a symbolic key); "
                            "symbolic: selector kind (11: int constant, bool, None, str, attribute, unary minus, float, four slice forms 0:k, k:, ::k, 1:3:k with k case-split), its value (int in [-5,5], any str "
                            "len<=2), container arity 0..3; oracle: returns an AST that CPython compiles and unparses, or FuncADLIndexError exactly when a constant "
                            "int index is beyond the end of a tuple/list literal")]


def t_units(tier):
    from func_adl.ast.function_simplifier import FuncADLIndexError  # noqa: F401
    N = 2 if tier == "quick" else 3
    us, n = tvbase.source_units(sources.SELECTORS, ("x", "y"), "simplify", N, "selector-family", nchunks=16, rtypes={"i_k": "i"},
                                allowed_exc=(FuncADLIndexError,))
    for u in us:
        u["compile_check"] = True
    # C02's programs: every simplified output must also unparse and compile (totality / well-formedness)
    from vlib.skel import families
    inst = [s for _, s in families.instances(("x", "y"))]
    for part in tvbase.chunks(inst, 24):
        us.append(dict(kind="sources", sources=part, transformer="simplify", N=N, label="family", compile_check=True))
    mp = 10 if tier == "quick" else 12
    for a in range(3):
        for b in range(12):
            us.append(dict(kind="grammar", form="fn", feats=["calllam", "first", "tuple", "dict", "count", "ifexp", "kwlam", "curry", "method", "bool", "nested"], stages=2, depth=2,
                           maxpicks=mp, fixed=[a, b], schemes=["reuse"], transformer="simplify", N=N, compile_check=True))
    for i in range(8 if tier == "quick" else 32):
        us.append(dict(kind="random", seed=report.seed() * 100 + i, count=150 if tier == "quick" else 1000, form=["fn", "mix"][i % 2], feats=None, stages=2, depth=3, maxpicks=24,
                       scheme="reuse", transformer="simplify", N=N, compile_check=True))
    return us, n


def run(tier):
    r = report.Run(PROP, tier, "translation_validation")
    r.assumptions += base.S_ASSUME
    so = chrun.run_jobs(s_jobs(tier))
    chrun.fold_into(r, so)
    base.finish_s(r, so, rule=base.S_RULE,
                  explanation="S part: bounded symbolic execution of the real simplifier with symbolic selectors (totality, validity of the result, dedicated index error only when allowed)")
    r.coverage["bounds_s"] = {"int_selector": [-5, 5], "str_selector_len": 2, "arity": [0, 3], "positions": 4, "containers": 6, "selector_kinds": 11}
    r.coverage["not_symbolically_executed"] = ["validity check of the result: compile()/ast.unparse on a copy whose symbolic leaves are replaced by stand-ins of the same type"]
    us, n = t_units(tier)
    res = tvrun.run_units(us)
    tvrun.fold_into(r, res, "simplify_chained_calls on %d instances of literal projections with negative / slice / variable / absent-key selectors: where the input evaluates, the output evaluates to the same value" % n)
    tvbase.finish_t(r, tier, ["func_adl.ast.function_simplifier.simplify_chained_calls.visit_Subscript*, visit_Attribute"], {"N_collection_length": 2 if tier == "quick" else 3})
    return r.finish()


def replay(payload):
    if payload.get("engine") == "T":
        return tvrun.replay_payload(payload)
    return base.s_replay(payload)
