"""C18 - simplification is total on well-formed queries."""
from vlib import chrun
from vlib.harness import base

PROP = "C18"
replay = base.s_replay


def s_jobs(tier):
    t = 200 if tier == "quick" else 900
    return [chrun.SJob("vlib.sh.c18a", "c18a", base.parts(20), t,
                       what="simplify_chained_calls on a literal projection in 4 positions (direct, after Select-Select fusion, behind First(), inside a Where "
                            "predicate over a packaged Select) x 5 container kinds (tuple, list, dict with str keys, dict with int keys, dict with a symbolic key); "
                            "symbolic: selector kind (8: int constant, bool, None, str, attribute, unary minus, slice, float), its value (int in [-5,5], any str "
                            "len<=2), container arity 0..3; oracle: returns an AST that CPython compiles and unparses, or FuncADLIndexError exactly when a constant "
                            "int index is beyond the end of a tuple/list literal")]


def run(tier):
    r, so = base.run_s(PROP, tier, "other", s_jobs(tier),
                       explanation="bounded symbolic execution (CrossHair/z3) of the real simplifier with symbolic selectors; semantic intactness is decided by the TV part",
                       functions=["func_adl.ast.function_simplifier.simplify_chained_calls.visit_Subscript/_Tuple/_List/_Dict/_Dict_with_value/_Of_First, visit_Attribute, visit_Call, call_Select, call_Where"],
                       bounds={"int_selector": [-5, 5], "str_selector_len": 2, "arity": [0, 3], "positions": 4, "containers": 5, "selector_kinds": 8},
                       not_traced=["validity check of the result: compile()/ast.unparse on a copy whose symbolic leaves are replaced by stand-ins of the same type"])
    return r.finish()
