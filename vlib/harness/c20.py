"""C20 - the query hash identifies structure and nothing else."""
import json
import os
import subprocess
import sys

from vlib import chrun, report
from vlib.harness import base

PROP = "C20"
replay = base.s_replay


def cross_process(r):
    "concrete side check: same builds in fresh interpreters with different hash seeds"
    outs = []
    for seed in ("0", "1", "random"):
        env = dict(os.environ, PYTHONHASHSEED=seed, PYTHONPATH=report.ROOT + (":" + os.environ["PYTHONPATH"] if os.environ.get("PYTHONPATH") else ""))
        p = subprocess.run([sys.executable, "-m", "vlib.sh.c20_queries"], capture_output=True, text=True, env=env, cwd=report.ROOT)
        line = [x for x in p.stdout.splitlines() if x.startswith("HASHES ")]
        if not line:
            r.harness_error("c20_queries failed: " + (p.stderr or p.stdout)[-400:])
            return
        outs.append(json.loads(line[0][7:]))
    n = 0
    for gi, group in enumerate(outs[0]):
        n += len(group)
        if len(set(group)) != 1:
            r.violation("same query supplied in different ways hashes differently (group %d)" % gi, {"engine": "concrete", "group": gi, "hashes": group})
    for o in outs[1:]:
        if o != outs[0]:
            r.violation("hash differs between processes", {"engine": "concrete", "a": outs[0], "b": o})
    r.coverage["concrete_cross_process_hashes"] = n * len(outs)


def run(tier):
    fn, t = ("c20", 400) if tier == "quick" else ("c20t", 1500)
    jobs = [chrun.SJob("vlib.sh.c20", fn, base.parts(36), t,
                       what="calc_ast_hash on pairs (A,B): 9 program shapes (incl. variable-length lists nested in each other, a slice with one bound and a lambda parameter with a default: optional child slots) x leaf kind {int in [-2,2], bool, str over an 8-character class alphabet "
                            "(ascii, quote, backslash, space, Latin-1, >U+00FF, astral, digit) of length <=%d, float edge values}; B derived from A by a "
                            "solver-split relation: rebuild (same/other binder name), unparse/parse round trip, non-field annotations (lineno, _q_metadata, "
                            "executor, arbitrary attribute), one of 12 single edits (incl. one non-ASCII character replaced by another), the same edit applied to both, a shallow copy of the top node with a replaced argument, or an in-place edit between two hash computations; oracle: hashes equal iff structurally identical"
                            % (1 if tier == "quick" else 2))]
    r, so = base.run_s(PROP, tier, "other", jobs,
                       explanation="bounded symbolic execution (CrossHair/z3) of calc_ast_hash; all leaves are bounded and case-split by the solver because "
                                   "ast.dump->repr->md5 is C code that realises its input (stated bound, not 'all strings')",
                       functions=["func_adl.ast.ast_hash.calc_ast_hash"],
                       bounds={"shapes": 9, "int_leaf": [-2, 2], "str_alphabet": 8, "str_len": 1 if tier == "quick" else 2, "relations": 7, "edit_kinds": 14},
                       extra_assumptions=["md5 collisions are outside the claim", "0.0 vs -0.0 and NaN are excluded (whether they are 'identical' is debatable)"],
                       not_traced=["construction of the pair (A,B) and the structural comparer (harness side)", "hashlib.md5, repr (C code, concrete)"])
    cross_process(r)
    return r.finish()
