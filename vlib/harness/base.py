"""Shared plumbing for property check modules."""
from vlib import chrun, report

S_ASSUME = [
    "CPython 3.12 ast/inspect/typing/copy are executed, not modelled; CrossHair 0.0.110's symbolic int/str/bool/container models and z3 are trusted",
    "a partition counts as discharged only when CrossHair reports 'Confirmed over all paths'; timeouts/unknown are reported as inconclusive, never as success",
    "counterexamples are re-run on the plain interpreter (no CrossHair) and only reported when they reproduce",
]


def parts(n, width=1):
    return [(i, min(i + width, n)) for i in range(0, n, width)]


def finish_s(run: report.Run, so: chrun.SOutcome, rule: str, explanation: str):
    c = run.coverage
    c["evaluations"] = c.get("evaluations", 0) + so.paths
    c["distinct_nontrivial"] = c.get("distinct_nontrivial", 0) + so.reached
    c.setdefault("rule", rule)
    c.setdefault("explanation", explanation)
    c.setdefault("samples", [])
    c["samples"] = (c["samples"] + so.samples)[:16]
    c["exhaustive"] = (so.confirmed == so.partitions) and not so.harness_errors and c.get("exhaustive", True)
