"""Shared plumbing for property check modules."""
from vlib import chrun, report

S_ASSUME = [
    "CPython 3.12 ast/inspect/typing/copy are executed, not modelled; CrossHair 0.0.110's symbolic int/str/bool/container models and z3 are trusted",
    "a partition counts as discharged only when CrossHair reports 'Confirmed over all paths'; timeouts/unknown are reported as inconclusive, never as success",
    "counterexamples are re-run on the plain interpreter (no CrossHair) and only reported when they reproduce",
]


def parts(n, width=1):
    return [(i, min(i + width, n)) for i in range(0, n, width)]


def finish_s(run: report.Run, so: chrun.SOutcome, rule: str, explanation: str):
    c = run.coverage
    c["evaluations"] = c.get("evaluations", 0) + so.paths
    c["distinct_nontrivial"] = c.get("distinct_nontrivial", 0) + so.reached
    c.setdefault("rule", rule)
    c.setdefault("explanation", explanation)
    c.setdefault("samples", [])
    c["samples"] = (c["samples"] + so.samples)[:16]
    c["exhaustive"] = (so.confirmed == so.partitions) and not so.harness_errors and c.get("exhaustive", True)


def s_replay(payload):
    rp = chrun.replay_native(payload["harness"], payload["fn"], payload["argstr"])
    print(rp)
    if "raised" in rp or "error" in rp:
        return 3
    return 1 if rp.get("returned") else 0


S_RULE = ("one evaluation = one CrossHair execution path (a distinct sequence of branch decisions of the real code on symbolic inputs, "
          "each decision checked for feasibility by z3); non-trivial = the path satisfied the preconditions and reached the call into func_adl "
          "(counted by the harness)")


def run_s(prop, tier, level, jobs, explanation, functions, bounds, extra_assumptions=(), not_traced=()):
    r = report.Run(prop, tier, level)
    r.assumptions += S_ASSUME + list(extra_assumptions)
    so = chrun.run_jobs(jobs)
    chrun.fold_into(r, so)
    finish_s(r, so, rule=S_RULE, explanation=explanation)
    r.coverage["functions_executed_symbolically"] = list(functions)
    r.coverage["bounds"] = bounds
    r.coverage["not_symbolically_executed"] = list(not_traced)
    if level == "model_checking":
        r.coverage["states"] = max(so.reached, 1)
        r.coverage["transitions"] = max(so.paths, 1)
        r.coverage["traces_validated_against_impl"] = so.reached
    return r, so
