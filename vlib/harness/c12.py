"""C12 - value() runs exactly the stream's query on its own dataset, once."""
import asyncio
import ast

from vlib import chrun
from vlib.harness import base

PROP = "C12"
replay = base.s_replay


def sync_side_check(r):
    """value() goes through make_sync (threads), which is outside the tracer: exercised concretely per run, also from inside a running event loop"""
    from func_adl import EventDataset

    calls = []

    class DS(EventDataset):
        def __init__(self, name):
            super().__init__()
            self.name = name

        async def execute_result_async(self, a, title=None):
            calls.append((self.name, ast.dump(a), title))
            await asyncio.sleep(0.001)
            return (self.name, title)

    a, b = DS("A"), DS("B")
    sa = a.Select("lambda e: e.x").MetaData({})
    sb = b.Where("lambda e: e.x > 1").AsAwkwardArray(["c"])
    n = 0
    if calls:
        r.violation("executor ran while building", {"engine": "concrete"})
    for st, nm in ((sa, "A"), (sb, "B"), (sa, "A")):
        got = st.value(title="t%d" % n)
        n += 1
        if got != (nm, "t%d" % (n - 1)) or len(calls) != n or calls[-1][0] != nm:
            r.violation("value() routed to the wrong executor or returned something else", {"engine": "concrete", "got": repr(got), "calls": calls})

    async def both():
        return await asyncio.gather(sb.value_async(title="x"), sa.value_async(title="y"))

    got = asyncio.run(both())
    if got != [("B", "x"), ("A", "y")]:
        r.violation("concurrently awaited value_async calls mixed up their results", {"engine": "concrete", "got": repr(got)})
    # history: one-shot queries are built, executed and thrown away (their AST objects die), then a query with an empty wrapper is executed
    c = DS("C")
    want = ast.dump(c.Select("lambda e: e.y").Where("lambda y: y > 0").query_ast)
    rounds = 300
    for i in range(rounds):
        a.Select("lambda e: e.x").Where("lambda x: x > %d" % i).value(title="p")
        c.Select("lambda e: e.y").value(title="q")
        del calls[:]
        c.MetaData({}).Select("lambda e: e.y").Where("lambda y: y > 0").value(title="r")
        if len(calls) != 1 or calls[0][1] != want:
            r.violation("after %d build/execute/discard rounds the executor received another query than the stream's (minus empty MetaData)" % i,
                        {"engine": "concrete", "received": calls[0][1][:400] if calls else None, "expected": want[:400]})
            break
    r.coverage["concrete_value_sync_calls"] = n + 2 + 3 * rounds


def run(tier):
    if tier == "quick":
        jobs = [chrun.SJob("vlib.sh.c12", "c12", base.parts(16), 500,
                           what="1..3 concurrently awaited value_async() executions chosen among 4 prepared streams on 2 datasets (with stacked empty MetaData wrappers, a user function named MetaData inside a lambda, QMetaData, Where, "
                                "AsAwkwardArray terminal); symbolic: which streams, completion order of the executors (coroutines stepped by hand, executor "
                                "suspended on a gate), which execution raises, override executor (a falsy callable object) on the first execution, the title (any str); oracle: executor "
                                "log empty after building and before awaiting, exactly one call per execution on the right dataset OBJECT / override with the stream's query minus "
                                "empty MetaData wrappers and the very title object, result/exception delivered to the right awaiter, find_EventDataset returns the "
                                "root node and rejects 0/2 roots")]
    else:
        jobs = [chrun.SJob("vlib.sh.c12", "c12t", base.parts(64), 2400,
                           what="as quick, 8 prepared streams on 3 datasets (all four result-format terminals, QMetaData, nested lambdas, a bare dataset), override "
                                "executor mask over all executions")]
    r, so = base.run_s(PROP, tier, "model_checking", jobs,
                       explanation="bounded model checking of execution schedules by symbolic execution (CrossHair/z3): stream choice, completion order, failure point and "
                                   "override mask are solver-split, the title is a symbolic string",
                       functions=["func_adl.object_stream.ObjectStream.value_async", "ObjectStream._get_executor", "func_adl.ast.meta_data.remove_empty_metadata", "func_adl.event_dataset.find_EventDataset"],
                       bounds={"concurrent_executions": 3, "streams": 4 if tier == "quick" else 8, "datasets": 2 if tier == "quick" else 3},
                       not_traced=["construction of the prepared streams (import time; no symbolic value reaches it)", "comparison of the received AST with the reference (ast.dump)",
                                   "value() through make_sync/threads: exercised concretely (sync_side_check)"])
    try:
        sync_side_check(r)
    except Exception as e:  # noqa
        r.violation("value()/value_async side check raised %r" % (e,), {"engine": "concrete"})
    return r.finish()
