"""C17 - method-form and function-form queries are interchangeable."""
from vlib import chrun, report, tvrun
from vlib.harness import base, tvbase
from vlib.skel import sources

PROP = "C17"


def s_jobs(tier):
    t = 200 if tier == "quick" else 900
    return [chrun.SJob("vlib.sh.c17a", "c17a", base.parts(24), t,
                       what="change_extension_functions_to_calls on 8 program shapes (incl. an operator call whose result is called on the spot, operator calls whose arguments are given by keyword) x 0..2 extra arguments, after earlier calls with a caller-supplied and with an empty list of names; symbolic: two attribute "
                            "names (any str, len<=12) at two different depths; oracle: reference bottom-up conversion; also idempotence "
                            "and absence of remaining method-form operator calls")]


def t_units(tier):
    N = 2 if tier == "quick" else 3
    us, n = tvbase.source_units(sources.FORMS, ("x", "y"), "fnform", N, "forms-family", nchunks=16, rtypes=sources.FORMS_RTYPES)
    mp = 9 if tier == "quick" else 11
    for form in ("meth", "mix"):
        for a in range(3):
            us.append(dict(kind="grammar", form=form, feats=["calllam", "first", "tuple", "dict", "count", "method", "nested", "comp"], stages=2, depth=2, maxpicks=mp, fixed=[a],
                           schemes=["reuse"], transformer="fnform", N=N))
    for i in range(12 if tier == "quick" else 48):
        us.append(dict(kind="random", seed=report.seed() * 100 + i, count=150 if tier == "quick" else 800, form=["mix", "meth"][i % 2], feats=None,
                       stages=2 + i % 2, depth=3, maxpicks=24, scheme="reuse", transformer="fnform", N=N))
    return us, n


def run(tier):
    r = report.Run(PROP, tier, "translation_validation")
    r.assumptions += base.S_ASSUME
    so = chrun.run_jobs(s_jobs(tier))
    chrun.fold_into(r, so)
    base.finish_s(r, so, rule=base.S_RULE,
                  explanation="S part: bounded symbolic execution of change_extension_functions_to_calls with two fully symbolic attribute names (structure, selectivity, idempotence)")
    r.coverage["bounds_s"] = {"name_len": 12, "extra_args": [0, 2], "shapes": 8}
    us, n = t_units(tier)
    res = tvrun.run_units(us)
    tvrun.fold_into(r, res, "change_extension_functions_to_calls on %d mixed-form family instances (with non-operator look-alike methods) + method/mixed-form grammar and random programs" % n)
    tvbase.finish_t(r, tier, ["func_adl.ast.func_adl_ast_utils.change_extension_functions_to_calls"], {"N_collection_length": 2 if tier == "quick" else 3})
    return r.finish()


def replay(payload):
    if payload.get("engine") == "T":
        return tvrun.replay_payload(payload)
    return base.s_replay(payload)
