"""C17 - method-form and function-form queries are interchangeable."""
from vlib import chrun, report
from vlib.harness import base

PROP = "C17"


def s_jobs(tier):
    t = 200 if tier == "quick" else 900
    return [chrun.SJob("vlib.sh.c17a", "c17a", base.parts(18), t,
                       what="change_extension_functions_to_calls on 6 program shapes x 0..2 extra arguments; symbolic: two attribute "
                            "names (any str, len<=12) at two different depths; oracle: reference bottom-up conversion; also idempotence "
                            "and absence of remaining method-form operator calls")]


def run(tier):
    r = report.Run(PROP, tier, "other")
    r.assumptions += base.S_ASSUME
    so = chrun.run_jobs(s_jobs(tier))
    chrun.fold_into(r, so)
    base.finish_s(r, so,
                  rule="one evaluation = one CrossHair execution path; non-trivial = reached the call into func_adl",
                  explanation="bounded symbolic execution (CrossHair/z3) of change_extension_functions_to_calls with two fully symbolic "
                              "attribute names; each partition must be confirmed over all paths")
    r.coverage["functions_executed_symbolically"] = ["func_adl.ast.func_adl_ast_utils.change_extension_functions_to_calls", "transform_calls.visit_Call"]
    r.coverage["bounds"] = {"name_len": 12, "extra_args": [0, 2], "shapes": 6}
    return r.finish()


def replay(payload):
    rp = chrun.replay_native(payload["harness"], payload["fn"], payload["argstr"])
    print(rp)
    if "raised" in rp or "error" in rp:
        return 3
    return 1 if rp.get("returned") else 0
