"""C02 - chained-call simplification preserves query results."""
import os

from vlib import report, tvrun
from vlib.skel import families

PROP = "C02"
FEATS_CORE = ["calllam", "first", "tuple", "dict", "count", "ifexp", "kwlam", "curry", "method", "bool", "nested"]


def chunks(lst, n):
    k = max(1, (len(lst) + n - 1) // n)
    return [lst[i:i + k] for i in range(0, len(lst), k)]


def units(tier, seed):
    N = 2 if tier == "quick" else 3
    us = []
    # (ii) mechanism families under every legal naming from a 2-name (quick) / 3-name (thorough) pool
    inst = families.instances(("x", "y") if tier == "quick" else ("x", "y", "z"))
    for part in chunks([s for _, s in inst], 48):
        us.append(dict(kind="sources", sources=part, transformer="simplify", N=N, label="family"))
    # the same families with binders that are spelled like the names the simplifier makes up (arg_0, arg_1), its counter starting at 0 as in a fresh process
    inst2 = families.instances(("arg_0", "arg_1"))
    for part in chunks([s for _, s in inst2], 16):
        us.append(dict(kind="sources", sources=part, transformer="simplify_fresh", N=N, label="family/generated-looking names"))
    # (i) generic grammar, exhaustive under a decision bound, two stages, both naming schemes
    mp = 12 if tier == "quick" else 14
    for a in range(3):
        for b in range(12):
            us.append(dict(kind="grammar", form="fn", feats=FEATS_CORE, stages=2, depth=2, maxpicks=mp, fixed=[a, b], schemes=["distinct", "reuse"],
                           transformer="simplify", N=N))
    # method / mixed form programs through the same queries (the simplifier must stay correct on what it does not fuse)
    for a in range(3):
        us.append(dict(kind="grammar", form="mix", feats=["calllam", "first", "tuple", "count"], stages=2, depth=2, maxpicks=9 if tier == "quick" else 11, fixed=[a],
                       schemes=["reuse"], transformer="simplify", N=N))
    # (iii) seeded random deeper programs with maximal name re-use
    nrand = 16 if tier == "quick" else 64
    cnt = 500 if tier == "quick" else 4000
    for i in range(nrand):
        us.append(dict(kind="random", seed=seed * 1000 + i, count=cnt, form=["fn", "fn", "mix"][i % 3], feats=None, stages=2 + (i % 2), depth=3, maxpicks=26,
                       scheme="reuse", transformer="simplify", N=N))
    return us, len(inst)


def run(tier):
    r = report.Run(PROP, tier, "translation_validation")
    us, ninst = units(tier, report.seed())
    res = tvrun.run_units(us)
    tvrun.fold_into(r, res, "simplify_chained_calls: %d family instances, exhaustive 2-stage grammar, %d random units" % (ninst, sum(1 for u in us if u["kind"] == "random")))
    c = r.coverage
    c["functions_under_test"] = ["func_adl.ast.function_simplifier.simplify_chained_calls (whole class), convolute, make_args_unique, func_adl.ast.call_stack.argument_stack"]
    c["bounds"] = {"N_collection_length": 2 if tier == "quick" else 3, "stages": "2 (exhaustive) / 2-3 (random)", "expression_depth": "2 exhaustive, 3 random",
                   "values_and_opaque_functions": "unbounded (uninterpreted)"}
    c["rule"] = "one program = one query AST; Q0 (can run, model replayed through CPython), Q1 (same value for all datasets), Q2 (no new error) decided by z3"
    c["evaluations"] = c["programs"]
    c["distinct_nontrivial"] = c["t_queries"].get("Q0_sat", 0)
    r.assumptions += ["reference semantics R (DESIGN.md 2.3); opaque attributes/methods are pure total functions; collections have length <= N",
                      "a Q2 counterexample is reported only if the error also occurs under lazy evaluation",
                      "division, floats, strings operations and products of two unknowns are not generated"]
    return r.finish()


def replay(payload):
    return tvrun.replay_payload(payload)
