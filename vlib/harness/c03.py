"""C03 - source recovery returns the lambda that was actually passed."""
from vlib import report, tvrun
from vlib.harness import tvbase
from vlib.skel import layouts

PROP = "C03"


def run(tier):
    r = report.Run(PROP, tier, "translation_validation")
    thorough = tier == "thorough"
    seeds = [report.seed() * 100 + k for k in range(3 if not thorough else 12)]
    us = []
    total = 0
    for sd in seeds:
        n = len(layouts.cases(sd, thorough))
        total += n
        step = max(1, (n + 15) // 16)
        for lo in range(0, n, step):
            us.append(dict(kind="layouts", seed=sd, thorough=thorough, lo=lo, hi=min(n, lo + step), N=2))
    res = tvrun.run_units(us)
    tvrun.fold_into(r, res, "%d generated source layouts (one call per line, several calls per line told apart by method / argument names, black-style wrapped chains, "
                            "multi-line bodies, comments and strings with brackets and the word lambda, one-line defs passed by name, ambiguous same-line lambdas, "
                            "calls inside one-line defs / comprehensions / conditional expressions, lambdas bound to names or stored in tuples, nested lambdas, backslash "
                            "continuation, trailing commas, combinatorial chains of 1-4 calls in 5 line-break styles) x enclosing contexts (plain, def, class, loop+if, "
                            "decorated); parse_as_ast is wrapped in the checking process to record (callable, caller) -> recovered AST | exception" % total)
    ls = {"cases": 0, "calls": 0, "recovered_identical": 0, "raised_undocumented": 0}
    c = r.coverage
    c["layouts"] = total
    tvbase.finish_t(r, tier, ["func_adl.util_ast.parse_as_ast", "_parse_source_for_lambda", "_token_runner.find_identifier/tokens_till", "_get_lambda_in_stream", "rewrite_func_as_lambda",
                              "func_adl.object_stream.ObjectStream.Select/Where/SelectMany"],
                    {"layout_cases": total, "contexts": 5 if thorough else 3, "N_collection_length": 2})
    r.assumptions.append("the layout dimension is ENUMERATED (bounded grammar + seeded sampling), not symbolic: func_adl reads the file through inspect/tokenize (file I/O and C tokenizer) "
                         "before any Python-level logic; what z3 decides per recorded call is the behavioural identity of the recovered lambda and the lambda that was passed")
    r.assumptions.append("the oracle is the callable itself: the expected lambda's bytecode is compared with the passed callable's __code__ before anything is judged")
    r.assumptions.append("documented layouts must be recovered; any other layout may raise, but may never record a different lambda")
    return r.finish()


def replay(payload):
    print("layout:\n%s\nexpected: %s\nrecovered: %s" % (payload.get("layout"), payload.get("expected"), payload.get("recovered")))
    return 1
