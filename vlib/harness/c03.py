"""C03 - source recovery returns the lambda that was actually passed."""
from vlib import report, tvrun
from vlib.harness import tvbase
from vlib.skel import layouts

PROP = "C03"


def run(tier):
    r = report.Run(PROP, tier, "translation_validation")
    thorough = tier == "thorough"
    seeds = [report.seed() * 100 + k for k in range(3 if not thorough else 12)]
    us = []
    total = 0
    for sd in seeds:
        n = len(layouts.cases(sd, thorough))
        total += n
        step = max(1, (n + 15) // 16)
        for lo in range(0, n, step):
            us.append(dict(kind="layouts", seed=sd, thorough=thorough, lo=lo, hi=min(n, lo + step), N=2))
    res = tvrun.run_units(us)
    tvrun.fold_into(r, res, "%d generated source layouts (one call per line, several calls per line told apart by method / argument names, black-style wrapped chains, "
                            "multi-line bodies, comments and strings with brackets and the word lambda, one-line defs passed by name, ambiguous same-line lambdas, "
                            "calls inside one-line defs / comprehensions / conditional expressions, lambdas bound to names or stored in tuples, nested lambdas, backslash "
                            "continuation, trailing commas, combinatorial chains of 1-4 calls in 5 line-break styles) x enclosing contexts (plain, def, class, loop+if, "
                            "decorated); parse_as_ast is wrapped in the checking process to record (callable, caller) -> recovered AST | exception" % total)
    ls = {"cases": 0, "calls": 0, "recovered_identical": 0, "raised_undocumented": 0}
    c = r.coverage
    c["layouts"] = total
    tvbase.finish_t(r, tier, ["func_adl.util_ast.parse_as_ast", "_parse_source_for_lambda", "_token_runner.find_identifier/tokens_till", "_get_lambda_in_stream", "rewrite_func_as_lambda",
                              "func_adl.object_stream.ObjectStream.Select/Where/SelectMany"],
                    {"layout_cases": total, "contexts": 5 if thorough else 3, "N_collection_length": 2})
    r.assumptions.append("the layout dimension is ENUMERATED (bounded grammar + seeded sampling), not symbolic: func_adl reads the file through inspect/tokenize (file I/O and C tokenizer) "
                         "before any Python-level logic; what z3 decides per recorded call is the behavioural identity of the recovered lambda and the lambda that was passed")
    r.assumptions.append("the oracle is the callable itself: the expected lambda's bytecode is compared with the passed callable's __code__ before anything is judged")
    r.assumptions.append("documented layouts must be recovered; any other layout may raise, but may never record a different lambda")
    try:
        reload_side_check(r)
    except Exception as e:  # noqa
        r.harness_error("reload side check crashed: %r" % (e,))
    return r.finish()


def reload_side_check(r):
    """A module is imported and queries are built from its lambdas; the file is then rewritten with other lambda bodies on the same
    lines and the module is executed again (what importlib.reload does): queries built afterwards must record the lambdas that are
    passed now, not the text read before the edit.  Concrete history (file edits are I/O); nothing here refreshes linecache for
    the library."""
    import ast
    import importlib.util
    import os
    import shutil
    import sys
    import tempfile
    template = '''
from func_adl import EventDataset


class DS(EventDataset):
    async def execute_result_async(self, a, title=None):
        return a


def q_select(ds):
    return ds.Select(lambda e: e.pt%(A)s)


def q_where(ds):
    return ds.Where(
        lambda e: e.eta > %(B)s
    )


def q_two(ds):
    return ds.Select(lambda e: e.jets%(C)s).Select(lambda j: j.n + %(D)s)
'''
    versions = [dict(A="", B="1", C="", D="1"), dict(A=" / 1000.0", B="2.5", C=".Where(lambda j: j.ok)", D="20"), dict(A=" * 2", B="-1", C=".First()", D="3")]
    d = tempfile.mkdtemp(prefix="verif_c03rl_")
    name = "c03rl_%d" % os.getpid()
    path = os.path.join(d, name + ".py")
    n = 0
    try:
        mod = None
        for k, v in enumerate(versions):
            with open(path, "w") as f:
                f.write(template % v)
            os.utime(path, (1000000000 + 1000 * k, 1000000000 + 1000 * k))
            if mod is None:
                spec = importlib.util.spec_from_file_location(name, path)
                mod = importlib.util.module_from_spec(spec)
                sys.modules[name] = mod
            spec.loader.exec_module(mod)
            want = {"q_select": ["lambda e: e.pt%(A)s" % v], "q_where": ["lambda e: e.eta > %(B)s" % v], "q_two": ["lambda e: e.jets%(C)s" % v, "lambda j: j.n + %(D)s" % v]}
            for fn, lams in want.items():
                try:
                    st = getattr(mod, fn)(mod.DS())
                except ValueError:
                    continue        # not recovering is allowed for a history; recording a stale lambda is not
                got = []
                node = st.query_ast
                while isinstance(node, ast.Call) and len(node.args) == 2:
                    got.insert(0, node.args[1])
                    node = node.args[0]
                n += len(lams)
                for g, w in zip(got, lams):
                    if ast.dump(g) != ast.dump(ast.parse(w, mode="eval").body):
                        r.violation("after the source file was edited (version %d) and the module executed again, %s records %s where %s was passed" % (k, fn, ast.unparse(g), w),
                                    {"engine": "concrete", "program": fn, "expected": w, "got": ast.unparse(g), "history": "edit file, re-execute module, build query"})
    finally:
        sys.modules.pop(name, None)
        shutil.rmtree(d, ignore_errors=True)
    r.coverage["concrete_reload_history_lambdas"] = n


def replay(payload):
    print("layout:\n%s\nexpected: %s\nrecovered: %s" % (payload.get("layout"), payload.get("expected"), payload.get("recovered")))
    return 1
