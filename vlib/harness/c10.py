"""C10 - untyped queries pass through unchanged; refusals are explicit."""
from vlib import chrun
from vlib.harness import base

PROP = "C10"
replay = base.s_replay


def run(tier):
    if tier == "quick":
        jobs = [chrun.SJob("vlib.sh.c10", "c10", base.parts(117), 600,
                           what="Select on an untyped dataset with every root form x 8 representative child forms (leaf, unary, comparison, tuple, dict, call, subscript, nested lambda) in one operand position (13 forms: leaf, unary -, not, "
                                "binary op, comparison, and/or, conditional, tuple/list, dict, call with positional+keyword arguments / receiver / function, "
                                "subscript incl. tuple and dict literals, attribute incl. dict literal, nested lambda re-using or not the outer parameter) x operand "
                                "position x operator variants; all 7 leaf kinds directly under each root form, the attribute leaf under other child forms; Where with the 13 root forms over leaves (SelectMany too in the thorough tier); names from a pool of 2 incl. "
                                "names meaningful to ast objects; symbolic: the chooser's decisions (solver-split), integer constants (unbounded where no refusal "
                                "message renders them, one digit otherwise), dict key string (any str len<=2, or a 4-entry table where rendered), tuple index in [-3,3]; "
                                "oracle: emitted lambda structurally identical to the input; ValueError only for the designed refusals recognised from the input shape")]
    else:
        jobs = [chrun.SJob("vlib.sh.c10", "c10t", base.parts(195), 1500,
                           what="every root form x every child form (13 x 13), all operator variants, all 7 leaf kinds under every child form, name pool of 6; SelectMany / Where over the 13 roots")]
    r, so = base.run_s(PROP, tier, "other", jobs,
                       explanation="bounded symbolic execution (CrossHair/z3) of ObjectStream.Select/SelectMany/Where on an untyped stream over a solver-split expression grammar",
                       functions=["func_adl.object_stream.ObjectStream.Select/SelectMany/Where", "func_adl.util_ast.parse_as_ast/check_ast", "func_adl.ast.syntatic_sugar.resolve_syntatic_sugar",
                                  "func_adl.type_based_replacement.remap_from_lambda/remap_by_types (type_transformer.visit_*)"],
                       bounds={"expression_depth": 2, "forms": 13, "leaf_kinds": 7, "name_pool": 2 if tier == "quick" else 6, "tuple_index": [-3, 3]},
                       extra_assumptions=["logging is disabled in the worker (CrossHair's symbolic clock makes LogRecord creation fork); message formatting of symbolic numbers/ast nodes is stubbed",
                                          "a constant index of another type than int into a tuple literal ((a,b)['x']) is outside the grammar"],
                       not_traced=["clone of the input lambda and the structural walk of the comparison (leaves compared under tracing)"])
    return r.finish()
