"""C10 - untyped queries pass through unchanged; refusals are explicit."""
from vlib import chrun
from vlib.harness import base

PROP = "C10"
replay = base.s_replay


def run(tier):
    if tier == "quick":
        jobs = [chrun.SJob("vlib.sh.c10", "c10", base.parts(117), 600,
                           what="Select on an untyped dataset with every root form x 8 representative child forms (leaf, unary, comparison, tuple, dict, call, subscript, nested lambda) in one operand position (13 forms: leaf, unary -, not, "
                                "binary op, comparison, and/or, conditional, tuple/list, dict, call with positional+keyword arguments / receiver / function, "
                                "subscript incl. tuple and dict literals, attribute incl. dict literal, nested lambda re-using or not the outer parameter) x operand "
                                "position x operator variants; all 7 leaf kinds directly under each root form, the attribute leaf under other child forms; Where with the 13 root forms over leaves (SelectMany too in the thorough tier); names from a pool of 2 incl. "
                                "names meaningful to ast objects; symbolic: the chooser's decisions (solver-split), integer constants (unbounded where no refusal "
                                "message renders them, one digit otherwise), dict key string (any str len<=2, or a 4-entry table where rendered), tuple index in [-3,3]; "
                                "oracle: emitted lambda structurally identical to the input; ValueError only for the designed refusals recognised from the input shape")]
    else:
        jobs = [chrun.SJob("vlib.sh.c10", "c10t", base.parts(195), 1500,
                           what="every root form x every child form (13 x 13), all operator variants, all 7 leaf kinds under every child form, name pool of 6; SelectMany / Where over the 13 roots")]
    r, so = base.run_s(PROP, tier, "other", jobs,
                       explanation="bounded symbolic execution (CrossHair/z3) of ObjectStream.Select/SelectMany/Where on an untyped stream over a solver-split expression grammar",
                       functions=["func_adl.object_stream.ObjectStream.Select/SelectMany/Where", "func_adl.util_ast.parse_as_ast/check_ast", "func_adl.ast.syntatic_sugar.resolve_syntatic_sugar",
                                  "func_adl.type_based_replacement.remap_from_lambda/remap_by_types (type_transformer.visit_*)"],
                       bounds={"expression_depth": 2, "forms": 13, "leaf_kinds": 7, "name_pool": 2 if tier == "quick" else 6, "tuple_index": [-3, 3]},
                       extra_assumptions=["logging is disabled in the worker (CrossHair's symbolic clock makes LogRecord creation fork); message formatting of symbolic numbers/ast nodes is stubbed",
                                          "a constant index of another type than int into a tuple literal ((a,b)['x']) is outside the grammar"],
                       not_traced=["clone of the input lambda and the structural walk of the comparison (leaves compared under tracing)",
                                   "the callable / source-string forms (need source files): concrete differential side check over seeded samples of the same grammar"])
    try:
        three_ways_side_check(r, tier)
    except Exception as e:  # noqa
        r.harness_error("three-ways side check crashed: %r" % (e,))
    return r.finish()


def _typed_history():
    "a few ordinary queries on typed streams whose lambda parameters are called ev / hit / value / ctx / j"
    from dataclasses import dataclass
    from typing import Iterable
    from func_adl import EventDataset

    class Hit:
        def pt(self) -> float: ...  # noqa

    @dataclass
    class Rec:
        weight: float
        hits: Iterable[Hit]

    class Ev:
        def jets(self, name: str = "default") -> Iterable[Hit]: ...  # noqa
        def met(self, calib: int = 7) -> float: ...  # noqa
        def rec(self) -> Rec: ...  # noqa

    class TDS(EventDataset[Ev]):
        def __init__(self):
            super().__init__(Ev)

        async def execute_result_async(self, a, title=None):
            return a
    TDS().Select("lambda ev: ev.jets().Select(lambda hit: hit.pt())")
    TDS().Where("lambda value: value.met() > 1").Select("lambda ctx: ctx.rec()").Select("lambda hit: hit.weight")
    TDS().SelectMany("lambda j: j.jets()").Select("lambda value: value.pt()")
    TDS().Select("lambda ev: ev.rec()").Select("lambda value: value.hits.Select(lambda j: j.pt())")


def three_ways_side_check(r, tier):
    """lambdas supplied as source strings, ASTs and capture-free Python callables must give the same outcome.  The callable form needs a
    source file, so this part is a concrete differential run over seeded samples of the same grammar (generated module, real lambdas)."""
    import ast
    import random
    import logging
    from vlib import report, srcgen
    from vlib.sh import c10 as h
    logging.disable(logging.CRITICAL)
    rnd = random.Random(report.seed())
    n = 400 if tier == "quick" else 3000
    cases = []
    tries = 0
    while len(cases) < n and tries < n * 20:
        tries += 1
        picks = [rnd.randrange(h.NFORMS), rnd.randrange(h.NFORMS)] + [rnd.randrange(15) for _ in range(7)]
        fl = h.Flags()
        ch = h.Ch(picks)
        try:
            body = h.gen(ch, rnd.choice([0, 1, 5, -2]), rnd.choice(h.STRS + ["x y"]), rnd.choice([0, 1, -1, 2, -3]), fl, 15, True)
        except Exception:  # noqa
            continue
        if ch.bad or fl.none_const:
            continue
        cases.append((rnd.randrange(3), ast.unparse(ast.fix_missing_locations(ast.Lambda(ast.arguments([], [ast.arg("e")], None, [], [], None, []), body)))))
    # hand-written forms with the outcome the statement prescribes (op index, source, 'pass' | 'ValueError'); the typed queries
    # built first are a history: what an earlier query on a typed stream learnt about ITS parameter names must not leak into these
    _typed_history()
    fixed = [
        (2, "lambda e: lambda j: j.pt > 30", "ValueError"), (2, "lambda e: (e.a, e.b)", "ValueError"), (2, "lambda e: {'a': e.x}", "ValueError"),
        (2, "lambda e: 'txt'", "ValueError"), (2, "lambda e: [e.x]", "ValueError"),
        (0, "lambda e: (lambda j: j.pt) if e.flag else 'none'", "ValueError"), (0, "lambda e: (lambda j: j.pt) if e.flag else (lambda k: k.eta)", "pass"),
        (0, "lambda e: (e.a, e.b)['x']", "ValueError"), (0, "lambda e: (e.a, e.b)[1.5]", "ValueError"), (0, "lambda e: (e.a, e.b)[e.i]", "ValueError"),
        (0, "lambda e: (e.a, e.b)[0:1]", "ValueError"), (0, "lambda e: (e.a, e.b)[2]", "ValueError"), (0, "lambda e: {'a': e.x}['b']", "ValueError"),
        (0, "lambda e: e.m[1](2)", "pass"), (0, "lambda e: e.m['a', 2](e.x, k=e.y)", "pass"), (0, "lambda e: e.f(e.g[0])(1)", "pass"),
        (0, "lambda e: lambda a, b: a", "pass"), (0, "lambda e: e.f(lambda a, b=(1, 2): a[0:1], 3)", "pass"), (1, "lambda e: e.jets.Select(lambda a, b: a)", "pass"),
        (0, "lambda e: e.pt + ev.jets()", "pass"), (0, "lambda e: hit.weight + value.jets(1) + ctx", "pass"), (2, "lambda e: ev.met() > j.pt()", "pass"),
        (1, "lambda e: ev.jets().Select(lambda q: hit.pt())", "pass"),
        # python values have a python type even on an untyped stream: their methods are left exactly as written
        (0, "lambda e: 'a'.encode()", "pass"), (0, "lambda e: 'a b'.split(sep=e.x)", "pass"), (0, "lambda e: 'abc'.startswith(e.x)", "pass"), (0, "lambda e: ' a '.strip()", "pass"),
        (0, "lambda e: len(e.jets).to_bytes()", "pass"), (0, "lambda e: '{}'.format(e.x)", "pass"), (0, "lambda e: 'abc'.x[1](2)", "pass"), (0, "lambda e: (1.5).is_integer()", "pass"),
        (0, "lambda e: ('a' + 'b') if e.ok else 'c'", "pass"), (0, "lambda e: '-' * 3 if e.flag else 'none'", "pass"), (0, "lambda e: 3 * '-' if e.flag else 'none'", "pass"),
        (0, "lambda e: '%d' % 3 if e.flag else 'none'", "pass"), (0, "lambda e: b'-' * 3 if e.flag else b'n'", "pass"), (0, "lambda e: '-' * 3 if e.flag else 1", "ValueError"), (2, "lambda e: ('a' + e.name).startswith('ab')", "ValueError"),
        (0, "lambda e: {'pt': e.a, 'jet-eta': e.b}['jet-eta']", "pass"), (0, "lambda e: {'pt': e.a, 'class': e.b}['class'] + {'pt': e.a, 'jet eta': e.b}.pt", "pass"),
        (1, "lambda e: {'pt': e.a, 1: e.js}[1]", "pass"),
        (0, "lambda e: {'a': e.x}[[1]]", "ValueError"), (1, "lambda e: {'a': e.x}[[1]]", "ValueError"),
        # the one parameter may be positional-only; anything that is not exactly one positional parameter is refused
        (0, "lambda e, /: e.x", "pass"), (1, "lambda e, /: e.jets", "pass"), (0, "lambda *e: e", "ValueError"), (0, "lambda e, *, k=1: e.x", "ValueError"), (0, "lambda e, f: e.x", "ValueError"),
    ]
    nfixed = len(fixed)
    expect = {len(cases) + i: f[2] for i, f in enumerate(fixed)}
    cases += [(f[0], f[1]) for f in fixed]
    text = "def _ops():\n    return ['Select', 'SelectMany', 'Where']\n\n\n"
    for i, (op, src) in enumerate(cases):
        text += "def case_%d(ds):\n    return ds.%s(\n        %s\n    )\n\n\n" % (i, h.OPS[op], src)
    same = diff = 0

    def outcome(fn):
        try:
            return ("ok", ast.dump(fn().query_ast.args[1]))
        except ValueError:
            return ("ValueError",)
        except Exception as e:  # noqa
            return ("internal error", type(e).__name__, str(e)[:200])
    with srcgen.Scratch() as sc:
        try:
            mod = sc.load(text, "c10")
        except Exception as e:  # noqa
            r.harness_error("generated module for the three-ways check does not import: %r" % (e,))
            return
        for i, (op, src) in enumerate(cases):
            a = outcome(lambda: getattr(h.UDS(), h.OPS[op])(ast.parse(src).body[0].value))
            s = outcome(lambda: getattr(h.UDS(), h.OPS[op])(src))
            c = outcome(lambda: getattr(mod, "case_%d" % i)(h.UDS()))
            if i in expect and (a[0] == "ok") != (expect[i] == "pass") and a[0] != "internal error":
                r.violation("%s: outcome %s, the statement prescribes %s" % (src, a[0], expect[i]), {"engine": "concrete", "program": src, "outcome": str(a)[:300]})
            if a == s == c and a[0] != "internal error":
                same += 1
                if a[0] == "ok" and a[1] != ast.dump(ast.parse(src).body[0].value):
                    r.violation("emitted lambda differs from the one passed: %s" % src, {"engine": "concrete", "program": src, "emitted": a[1][:400]})
            else:
                diff += 1
                r.violation("the three ways of supplying a lambda disagree (ast / string / callable): %s" % src,
                            {"engine": "concrete", "program": src, "ast": str(a)[:300], "string": str(s)[:300], "callable": str(c)[:300]})
    r.coverage["concrete_prescribed_outcome_forms"] = nfixed
    r.coverage["concrete_three_ways_cases"] = len(cases)
    r.coverage["concrete_three_ways_agree"] = same
