"""C05 - captured one-line helper functions are inlined faithfully."""
from vlib import report, tvrun
from vlib.harness import tvbase
from vlib.skel import helpers

PROP = "C05"


def units(tier):
    N = 2 if tier == "quick" else 3
    fam = helpers.family_cases(("x", "y") if tier == "quick" else ("x", "y", "z"))
    us = [dict(kind="helpers", cases=part, N=N, label="helper-family") for part in tvbase.chunks(fam, 24)]
    n = 16 if tier == "quick" else 64
    cnt = 250 if tier == "quick" else 1500
    for i in range(n):
        us.append(dict(kind="helpers", cases=None, gen=dict(seed=report.seed() * 1000 + i, count=cnt, depth=2 + (i % 2), start=i * cnt), N=N, label="helper-grammar"))
    return us, len(fam), n * cnt


def run(tier):
    r = report.Run(PROP, tier, "translation_validation")
    us, nf, ng = units(tier)
    for u in us:
        if u["cases"] is None:
            u["cases"] = helpers.grammar_cases(**u.pop("gen"))
    res = tvrun.run_units(us)
    tvrun.fold_into(r, res, "generated modules with real one-line helpers (def / lambda, helpers calling helpers, nested lambdas re-using parameter names) passed through "
                            "the real ds.Select(callable): %d family instances, up to %d grammar-generated helper/call-site pairs; truth = the lambda as written, with each "
                            "helper meaning its own return expression (read by CPython from the generated text); replay runs the real Python helper functions" % (nf, ng))
    tvbase.finish_t(r, tier, ["func_adl.util_ast.parse_as_ast", "_parse_source_for_lambda", "rewrite_func_as_lambda", "_rewrite_captured_vars (visit_Name, safe_parse_wrapper)",
                              "_resolve_called_lambdas", "func_adl.object_stream.ObjectStream.Select"],
                    {"N_collection_length": 2 if tier == "quick" else 3, "helper_nesting": 2, "parameters": [1, 2]})
    r.assumptions.append("helpers with free globals of their own are not generated (the statement does not say what they should become)")
    return r.finish()


def replay(payload):
    from vlib.tvrun import UnitResult, unit_helpers
    res = unit_helpers(dict(kind="helpers", cases=[dict(helpers=payload["helpers"], lam=payload["lam"], names=payload.get("names") or _names(payload["helpers"]))], N=payload.get("N", 2)))
    print(res.violations[:1] or res.harness[:1] or "ok")
    return 1 if res.violations else (3 if res.harness else 0)


def _names(helpers_src):
    import ast
    t = ast.parse(helpers_src)
    return [n.name for n in t.body if isinstance(n, ast.FunctionDef)] + [n.targets[0].id for n in t.body if isinstance(n, ast.Assign)]
