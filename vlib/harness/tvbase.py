"""Shared pieces of the engine-T property modules."""
from vlib import report, tvrun
from vlib.skel import families

T_ASSUME = ["reference semantics R (DESIGN.md 2.3); opaque attributes/methods/functions are pure total uninterpreted functions; every collection has length <= N",
            "solver verdicts: unsat = holds for every dataset and interpretation within the bound; sat is replayed through CPython's eval and only reported if it reproduces; unknown = inconclusive",
            "a Q2 (error introduced) counterexample is reported only if the error also occurs under lazy evaluation",
            "z3 5.1.0 (python API) decides; a sample of the queries (every 1000th per worker process in the quick tier, every 250th in the thorough tier) is dumped as SMT-LIB2 and "
            "decided again by z3 4.8.12 and cvc5 1.0.3 - a differing definite answer is a harness error; the encoder is validated on every program by replaying the Q0 model through CPython"]


def chunks(lst, n):
    k = max(1, (len(lst) + n - 1) // n)
    return [lst[i:i + k] for i in range(0, len(lst), k)]


def source_units(templates, pool, transformer, N, label, nchunks=16, rtypes=None, allowed_exc=()):
    srcs = families.instantiate(templates, pool)
    return [dict(kind="sources", sources=part, transformer=transformer, N=N, label=label, rtypes=rtypes, allowed_exc=list(allowed_exc)) for part in chunks(srcs, nchunks)], len(srcs)


def finish_t(r, tier, functions, bounds):
    c = r.coverage
    c["functions_under_test"] = functions
    c["bounds"] = bounds
    c.setdefault("rule", "one program = one schematic query AST; Q0 (can run; its model is replayed through CPython to validate the encoder), "
                         "Q1 (same value for all datasets/interpretations), Q2 (no new error) are decided by z3")
    c["evaluations"] = max(c.get("evaluations", 0), c.get("programs", 0))
    c["distinct_nontrivial"] = max(c.get("distinct_nontrivial", 0), c.get("t_queries", {}).get("Q0_sat", 0))
    r.assumptions += T_ASSUME
