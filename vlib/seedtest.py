"""Development tool (not a registered check): validate a seeded change and run checks against it.

usage: python -m vlib.seedtest verify <seed_dir>            # in a scratch worktree: clean -> demo passes, 412 pass; patched -> demo fails, 412 pass
       python -m vlib.seedtest detect <seed_dir> [ids...]   # apply to /repo, run the quick checks (default: the property it breaks), undo
A seed dir holds patch.diff, demo.py, meta.json {"property": "Cxx", ...}.  /repo must be clean; it is restored with `git checkout -- .`."""
import json
import os
import subprocess
import sys
import tempfile

REPO = "/repo"
ROOT = os.path.dirname(os.path.dirname(os.path.abspath(__file__)))
VF = os.path.join(ROOT, "vf")
PYTEST = ["/venv/bin/python", "-m", "pytest", "-q", "-p", "no:cacheprovider", "-x"]


def sh(cmd, cwd=None, timeout=3600):
    p = subprocess.run(cmd, cwd=cwd, capture_output=True, text=True, timeout=timeout)
    return p.returncode, (p.stdout + p.stderr)


def verify(seed):
    seed = os.path.abspath(seed)
    wt = tempfile.mkdtemp(prefix="seedwt_")
    os.rmdir(wt)
    rc, out = sh(["git", "-C", REPO, "worktree", "add", "--detach", wt, "HEAD"])
    res = {}
    try:
        demo = os.path.join(wt, "demo_seed.py")
        with open(os.path.join(seed, "demo.py")) as f, open(demo, "w") as g:
            g.write(f.read())
        rc, out = sh(["/venv/bin/python", "demo_seed.py"], cwd=wt)
        res["clean_demo_rc"] = rc
        rc, out = sh(["git", "apply", os.path.join(seed, "patch.diff")], cwd=wt)
        if rc != 0:
            rc, out = sh(["git", "apply", "--3way", os.path.join(seed, "patch.diff")], cwd=wt)
        res["apply_rc"] = rc
        if rc != 0:
            res["apply_out"] = out[-500:]
            return res
        rc, out = sh(["/venv/bin/python", "demo_seed.py"], cwd=wt)
        res["patched_demo_rc"] = rc
        res["patched_demo_out"] = out[-400:]
        rc, out = sh(PYTEST, cwd=wt)
        res["patched_tests_rc"] = rc
        res["patched_tests_tail"] = out.strip().splitlines()[-1] if out.strip() else ""
        res["ok"] = res["clean_demo_rc"] == 0 and res["patched_demo_rc"] != 0 and res["patched_tests_rc"] == 0
    finally:
        sh(["git", "-C", REPO, "worktree", "remove", "--force", wt])
    return res


def detect(seed, ids):
    meta = json.load(open(os.path.join(seed, "meta.json")))
    ids = ids or [meta["property"]]
    rc, out = sh(["git", "-C", REPO, "status", "--porcelain"])
    if out.strip():
        return {"error": "/repo is not clean: " + out[:200]}
    rc, out = sh(["git", "-C", REPO, "apply", os.path.abspath(os.path.join(seed, "patch.diff"))])
    if rc != 0:
        return {"error": "patch does not apply to /repo: " + out[-300:]}
    res = {}
    try:
        for pid in ids:
            rc, out = sh([VF, "check", pid, "--tier", os.environ.get("SEED_TIER", "quick")], cwd=ROOT, timeout=7200)
            lines = [x for x in out.splitlines() if x.startswith("VIOLATION") or x.startswith("HARNESS-ERROR") or x.startswith(pid + " ")]
            res[pid] = {"rc": rc, "violations": sum(1 for x in lines if x.startswith("VIOLATION")), "first": [x for x in out.splitlines() if x.startswith("  ")][:2],
                        "summary": lines[-1][:300] if lines else out[-300:]}
    finally:
        sh(["git", "-C", REPO, "checkout", "--", "."])
    return res


def detectw(seed, ids, revert=None):
    """like detect, but against a scratch worktree of /repo HEAD (put first on PYTHONPATH), so /repo itself stays untouched and other runs can go on.
    With revert=<commit> the change tested is the reversal of that commit of /repo (is the repaired defect detected when it comes back?)."""
    if revert:
        seed = tempfile.mkdtemp(prefix="seedrv_")
        rc, out = sh(["git", "-C", REPO, "show", "--format=", revert])
        rc2, out2 = sh(["git", "-C", REPO, "show", "--format=", "-R", revert])
        with open(os.path.join(seed, "patch.diff"), "w") as f:
            f.write(out2)
        json.dump({"property": ids[0]}, open(os.path.join(seed, "meta.json"), "w"))
    meta = json.load(open(os.path.join(seed, "meta.json")))
    ids = ids or [meta["property"]]
    wt = tempfile.mkdtemp(prefix="seedwt_")
    os.rmdir(wt)
    scratch = tempfile.mkdtemp(prefix="seedev_")
    rc, out = sh(["git", "-C", REPO, "worktree", "add", "--detach", wt, "HEAD"])
    res = {}
    try:
        rc, out = sh(["git", "apply", os.path.abspath(os.path.join(seed, "patch.diff"))], cwd=wt)
        if rc != 0:
            rc, out = sh(["git", "apply", "--3way", os.path.abspath(os.path.join(seed, "patch.diff"))], cwd=wt)
        if rc != 0:
            return {"error": "patch does not apply: " + out[-300:]}
        env = dict(os.environ, PYTHONPATH=wt, VERIF_EVIDENCE_DIR=os.path.join(scratch, "ev"), VERIF_REPLAYS_DIR=os.path.join(scratch, "rp"))
        os.makedirs(env["VERIF_EVIDENCE_DIR"]); os.makedirs(env["VERIF_REPLAYS_DIR"])
        p = subprocess.run(["/verif/.venv/bin/python", "-c", "import func_adl; print(func_adl.__file__)"], env=dict(env, PYTHONPATH=ROOT + ":" + wt), capture_output=True, text=True)
        if not p.stdout.strip().startswith(wt):
            return {"error": "func_adl not imported from the scratch worktree: " + p.stdout + p.stderr[-200:]}
        for pid in ids:
            p = subprocess.run([VF, "check", pid, "--tier", os.environ.get("SEED_TIER", "quick")], cwd=ROOT, capture_output=True, text=True, timeout=7200, env=env)
            rc, out = p.returncode, p.stdout + p.stderr
            lines = [x for x in out.splitlines() if x.startswith("VIOLATION") or x.startswith("HARNESS-ERROR") or x.startswith(pid + " ")]
            res[pid] = {"rc": rc, "violations": sum(1 for x in lines if x.startswith("VIOLATION")), "first": [x for x in out.splitlines() if x.startswith("  ")][:2],
                        "summary": lines[-1][:300] if lines else out[-300:]}
    finally:
        sh(["git", "-C", REPO, "worktree", "remove", "--force", wt])
        sh(["rm", "-rf", scratch])
    return res


if __name__ == "__main__":
    cmd, seed = sys.argv[1], sys.argv[2]
    if cmd == "revert":   # python -m vlib.seedtest revert <commit> <ids...>
        r = detectw(None, sys.argv[3:], revert=seed)
    else:
        r = verify(seed) if cmd == "verify" else (detectw if cmd == "detectw" else detect)(seed, sys.argv[3:])
    print(json.dumps(r, indent=1))
