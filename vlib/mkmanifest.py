"""Regenerates /verif/MANIFEST.json from the table below (run: /venv/bin/python vlib/mkmanifest.py)."""
import json
import os

ROOT = os.path.dirname(os.path.dirname(os.path.abspath(__file__)))

S_NOTE = ("Trusted: CPython 3.12.1 + stdlib (executed, not modelled), CrossHair 0.0.110's symbolic models of int/str/bool/containers, "
          "z3 5.1.0, the oracle written in the harness. Claim is bounded: values inside the stated ranges, shapes inside the enumerated table; "
          "a partition that does not reach 'confirmed over all paths' is listed as inconclusive in the evidence.")
T_NOTE = ("Trusted: CPython 3.12.1, z3 5.1.0, the reference semantics R of DESIGN.md 2.3 as encoded in vlib/qsem (validated on every run by replaying "
          "solver models through CPython's eval; a sample of the queries is decided again by z3 4.8.12 and cvc5 1.0.3). Claim is bounded: collections of length <= N, programs inside the enumerated/sampled skeleton space; "
          "opaque methods are pure total uninterpreted functions.")

# id -> dict(level, text, technique, engine, design_ref, note)
CHECKS = {}


def add(pid, category, text, technique, engine, design_ref, note):
    CHECKS[pid] = dict(category=category, text=text, technique=technique, engine=engine, design_ref=design_ref, note=note)


add("C19", "translation_validation",
    "Bounded symbolic execution (CrossHair/z3) of the real aggregate_node_transformer: the function name is any string of length <= 5, "
    "argument and keyword counts are solver variables, 8 syntactic positions; every partition must come back 'confirmed over all paths' "
    "against a reference lowering. The value of the folds (len/sum/max/min for every integer sequence up to the bound) is decided by z3 "
    "on the emitted Aggregate lambdas (translation validation part).",
    "symbolic execution of the real code (CrossHair -> z3) + SMT equivalence of emitted folds (z3)", "S+T", "DESIGN.md 3/C19", S_NOTE)

add("C15", "other",
    "Bounded symbolic execution (CrossHair/z3) of extract_metadata and remove_empty_metadata on 4 wrapper placements with 4 wrappers each: "
    "dictionary sizes (0..2) and values (unbounded int, str len<=2) are solver variables; result compared with a reference stripper, the input "
    "tree's identity snapshot must be unchanged, extracted list must respect outer-before-inner. Every partition must be confirmed over all paths.",
    "symbolic execution of the real code (CrossHair -> z3), per-partition 'confirmed over all paths'", "S", "DESIGN.md 3/C15", S_NOTE)
add("C16", "model_checking",
    "Bounded model checking of QMetaData histories: all histories of 3 operations (4 in thorough) over 7 operation kinds and every parent choice "
    "(branching), plus five-step linear histories with three QMetaData calls (incl. a key set to None) on different nodes, with the metadata values as unbounded solver integers; after each step lookups are compared with a reference inheritance map and "
    "the AST/dump/hash received by executors with the twin history without QMetaData. Verdict per partition from CrossHair/z3 over all paths.",
    "symbolic execution of the real code over symbolic histories (CrossHair -> z3)", "S", "DESIGN.md 3/C16", S_NOTE)
add("C17", "translation_validation",
    "Bounded symbolic execution (CrossHair/z3) of change_extension_functions_to_calls with two fully symbolic attribute names (any string up to 12 "
    "characters) at different depths in 7 program shapes (incl. operator calls that take their arguments by keyword) x 0..2 extra arguments, each after an earlier call with a caller-supplied list of names; oracle: reference bottom-up conversion, idempotence, no method-form "
    "operator left. Semantic equality of both forms is decided by z3 translation validation on mixed-form programs.",
    "symbolic execution of the real code (CrossHair -> z3) + SMT translation validation (z3)", "S+T", "DESIGN.md 3/C17", S_NOTE)

add("C07", "other",
    "Bounded symbolic execution (CrossHair/z3) of the type follower's call normalisation: number of defaults, positional count, keyword mask, keyword "
    "order, argument values and declared default values (unbounded ints) are solver variables, for signatures with 1..3 parameters at 12 call-site "
    "positions (depths 0..2, dictionary field, registered collection class, registered functions and their results, receiver not called self, lambda handed to Where by keyword); oracle is inspect.Signature.bind.",
    "symbolic execution of the real code (CrossHair -> z3), per-partition 'confirmed over all paths'", "S", "DESIGN.md 3/C07", S_NOTE)
add("C13", "other",
    "Bounded symbolic execution (CrossHair/z3) of every value-embedding entry point. Values embedded as ast.Constant (defaults, captured variables) are "
    "fully symbolic (unbounded int, str/bytes len<=3, float, bool); values that travel as text through CPython's C parser are case-split over a "
    "20-character class alphabet (len<=2 quick, <=3 thorough) and edge tables. Oracle: ast.literal_eval returns an equal value of the same type.",
    "symbolic execution of the real code (CrossHair -> z3), per-partition 'confirmed over all paths'", "S", "DESIGN.md 3/C13", S_NOTE)
add("C14", "other",
    "Bounded symbolic execution (CrossHair/z3) of the real simplifier on 8 packaging kinds x 12 consumer chains x 3 binder naming schemes (2 in the quick tier) with symbolic "
    "tuple arity, projection index and dictionary key strings; oracle: no tuple/list/dict construction and no constant projection is left outside the final result.",
    "symbolic execution of the real code (CrossHair -> z3), per-partition 'confirmed over all paths'", "S", "DESIGN.md 3/C14", S_NOTE)
add("C18", "translation_validation",
    "Bounded symbolic execution (CrossHair/z3) of the real simplifier on literal projections with a symbolic selector (11 selector kinds incl. four slice forms, int in [-5,5], any "
    "str len<=2) in 4 positions x 5 container kinds: the result must compile/unparse or be the dedicated index error exactly when allowed. Semantic "
    "intactness of the untouched sub-expression is decided by z3 translation validation.",
    "symbolic execution of the real code (CrossHair -> z3) + SMT translation validation (z3)", "S+T", "DESIGN.md 3/C18", S_NOTE)
add("C20", "other",
    "Bounded symbolic execution (CrossHair/z3) of calc_ast_hash on pairs (A,B) where B is derived from A by a solver-split relation (rebuild, text round trip, "
    "non-field annotations on every node, one of 14 single edits incl. 'same child in another optional slot' and 're-nesting the last element of a list', same edit on both, shallow copy, in-place edit between two hash computations); hashes must be equal iff structurally identical. Leaves are bounded and case-split "
    "(repr/md5 are C code). Cross-process stability and the three ways of supplying a lambda are checked concretely per run.",
    "symbolic execution of the real code (CrossHair -> z3), per-partition 'confirmed over all paths'", "S", "DESIGN.md 3/C20", S_NOTE)

add("C02", "translation_validation",
    "SMT translation validation of the real simplify_chained_calls: for each schematic program (opaque attributes/methods are uninterpreted functions, "
    "datasets are symbolic sequences up to length N) z3 decides Q0 (input can run; model replayed through CPython), Q1 (same value for every dataset and "
    "interpretation) and Q2 (no error introduced). Programs: mechanism families under every legal binder naming, the exhaustive 2-stage grammar under a "
    "decision bound with distinct and maximally re-used names, seeded random deeper programs.",
    "SMT translation validation of the real transformer's output (z3, QF_UFLIA)", "T", "DESIGN.md 3/C02", T_NOTE)
add("C06", "translation_validation",
    "Comprehensions: SMT translation validation of resolve_syntatic_sugar (R gives comprehensions Python's meaning; z3 decides equality with the lowered "
    "Where/Select chain for all datasets up to N, incl. filter order through guarded First()). Constructors: bounded symbolic execution (CrossHair/z3) of the "
    "dataclass/NamedTuple lowering against Python's own argument binding with symbolic positional count, keyword mask/order and values.",
    "SMT translation validation (z3) + symbolic execution of the real code (CrossHair -> z3)", "S+T", "DESIGN.md 3/C06", T_NOTE)
add("C10", "other",
    "Bounded symbolic execution (CrossHair/z3) of Select/SelectMany/Where on an untyped stream over a solver-split expression grammar: every root form x "
    "operand position x child form (13x13 forms) with symbolic integer constants, dictionary keys and tuple indices; the emitted lambda must be structurally "
    "identical, the only exceptions are the designed ValueErrors recognised from the input shape.",
    "symbolic execution of the real code (CrossHair -> z3), per-partition 'confirmed over all paths'", "S", "DESIGN.md 3/C10", S_NOTE)
add("C11", "model_checking",
    "Bounded model checking of derive/execute histories (3 operations quick, up to 4 thorough, over a forest rooted in a typed and an untyped dataset, "
    "one ast.Lambda object and one Python function object shared by all steps whatever the item type, streams kept by callbacks observed too) by symbolic execution of the whole library path; after every step the identity+structure snapshot and item type of "
    "every live stream must be unchanged.",
    "symbolic execution of the real code over symbolic histories (CrossHair -> z3)", "S", "DESIGN.md 3/C11", S_NOTE)
add("C12", "model_checking",
    "Bounded model checking of execution schedules: which prepared streams are executed (up to 3 concurrently), the completion order of their executors "
    "(coroutines stepped by hand, executor suspended on a gate), the failing execution, override executors (a falsy callable object returning a non-coroutine awaitable) and the title (symbolic string) are solver "
    "variables; oracle: one executor call per execution on the right dataset OBJECT / override with the stream's query minus empty MetaData and the very title, result or "
    "exception delivered to the right awaiter; root lookup. value() through make_sync is exercised concretely.",
    "symbolic execution of the real code over symbolic schedules (CrossHair -> z3)", "S", "DESIGN.md 3/C12", S_NOTE)

add("C01", "translation_validation",
    "End-to-end SMT translation validation through the real fluent API: generated Python modules (real lambdas, source strings and ast.Lambda objects; "
    "captured local/global/class constants; one-line helpers; dataclass/NamedTuple records; comprehensions; typed model with defaults; result-format terminals; "
    "sibling branches) build chains on an untyped and a typed dataset; the AST value_async() hands to the executor and the AST after the three backend passes "
    "are compared by z3 with the chain as written (Q0/Q1/Q2 for all datasets up to length N). The truth AST itself is validated by running the generated chain "
    "with CPython on a model dataset.",
    "SMT translation validation of the emitted query against the user's chain (z3, QF_UFLIA)", "T", "DESIGN.md 3/C01", T_NOTE)
add("C04", "other",
    "Bounded symbolic execution (CrossHair/z3) of capture rewriting on real closures: the captured value (Union[int, bool, str, float, bytes] or a "
    "non-transportable stand-in), the other captured ints and a post-call rebinding history are symbolic over 34 scoping shapes (every parameter kind, defaults, := targets, methods called on captured values); oracle is the harness's own "
    "scope analysis (exactly the free occurrences become constants holding the value itself; ValueError exactly for non-transportable values).",
    "symbolic execution of the real code (CrossHair -> z3), per-partition 'confirmed over all paths'", "S", "DESIGN.md 3/C04", S_NOTE)
add("C05", "translation_validation",
    "SMT translation validation through the real ds.Select(callable): generated modules define one-line helpers (def and lambda, helpers calling helpers, nested "
    "lambdas re-using parameter names, bare-parameter bodies, non-inlinable helpers) and call them positionally / by keyword / re-ordered; the emitted lambda is "
    "compared by z3 with the lambda as written where each helper means its own return expression (read by CPython from the generated text); counterexamples are "
    "replayed with the real Python helper functions.",
    "SMT translation validation of the emitted lambda against Python's meaning of the helper call (z3)", "T", "DESIGN.md 3/C05", T_NOTE)
add("C08", "other",
    "Bounded symbolic execution (CrossHair/z3) of the type follower over a table of typed expressions on a class model with inheritance, generic classes (with "
    "concrete and generic subclasses, direct Generic base), custom Iterable subclass, registered collection class, dataclass fields; a solver-split promotion "
    "table (operand kinds x operators x forms, unbounded constants); stream-level item types incl. the non-boolean Where refusal. Structure-dominated: the "
    "solver contributes exhaustiveness of the decoded space.",
    "symbolic execution of the real code (CrossHair -> z3), per-partition 'confirmed over all paths'", "S", "DESIGN.md 3/C08", S_NOTE)
add("C09", "other",
    "Bounded symbolic execution (CrossHair/z3) of the callback machinery: a symbolic 9-bit mask decides which of 9 call sites (class, method, both, rewriting "
    "method callback, rewriting function processor, parameterized property, inherited method of a decorated subclass, chained rewritten receiver, none) are present at depth 0-2 in four placements (quick: every subset of <= 3 sites and all 9); the property's parameter is an unbounded "
    "symbolic int that must reach the callback by value; oracle: invocation log, class-before-method, MetaData tags on the args[0] chain, emitted rewrite.",
    "symbolic execution of the real code (CrossHair -> z3), per-partition 'confirmed over all paths'", "S", "DESIGN.md 3/C09", S_NOTE)

add("C03", "translation_validation",
    "Translation validation over an ENUMERATED layout space (the layout quantifier cannot be symbolic: func_adl reads the source file through inspect/tokenize "
    "before any Python-level logic runs): generated modules place lambdas in documented and undocumented layouts x enclosing contexts; parse_as_ast is wrapped in "
    "the checking process; for every recorded call the expected lambda is first confirmed against the passed callable's bytecode, then z3 decides that the "
    "recovered lambda and the passed one are behaviourally identical (or the library raised, which is allowed only for undocumented layouts).",
    "SMT equivalence of recovered vs passed lambda (z3) over an enumerated layout grammar", "T", "DESIGN.md 3/C03", T_NOTE)

NOT_YET = {}


def main():
    props = [json.loads(line)["id"] for line in open(os.path.join(ROOT, "properties.jsonl"))]
    checks = []
    for pid in props:
        if pid not in CHECKS:
            continue
        c = CHECKS[pid]
        checks.append({
            "property_id": pid,
            "quick_cmd": "./vf check %s --tier quick" % pid,
            "thorough_cmd": "./vf check %s --tier thorough" % pid,
            "evidence_file": "/verif/evidence/%s.json" % pid,
            "replay_cmd_template": "./vf replay {path}",
            "engine": c["engine"],
            "level_claimed": {"category": c["category"], "text": c["text"], "design_ref": c["design_ref"]},
            "level_note": c["note"],
            "technique": c["technique"],
        })
    na = [{"property_id": p, "reason": NOT_YET.get(p, "check not built yet - work in progress (all 20 properties are designed to be claimed, see DESIGN.md)")}
          for p in props if p not in CHECKS]
    m = {
        "version": 1,
        "setup_cmd": "./vf setup",
        "hooks": {
            "guard": "FUNC_ADL_VERIF",
            "enable": "no source hooks are needed: CrossHair traces the unmodified modules and the TV engine calls public functions; the variable is reserved and unused",
            "baseline_off_cmd": "cd /repo && /venv/bin/python -m pytest -ra -q -p no:cacheprovider --timeout=900 --continue-on-collection-errors",
            "source_commits": [],
            "add_only": True,
        },
        "engines": [
            {"name": "S", "path": "/verif/vlib/chrun.py", "serves_properties": sorted(p for p, c in CHECKS.items() if "S" in c["engine"]),
             "kind_free_text": "bounded symbolic execution of the real func_adl functions with CrossHair 0.0.110 (z3), partitioned over 16 worker processes; counterexamples replayed natively"},
            {"name": "T", "path": "/verif/vlib/qsem", "serves_properties": sorted(p for p, c in CHECKS.items() if "T" in c["engine"]),
             "kind_free_text": "SMT translation validation (z3, QF_UFLIA + uninterpreted sort): the real transformer / fluent API runs on schematic programs, input and output ASTs are encoded and compared for all datasets up to length N"},
        ],
        "checks": checks,
        "not_applicable": na,
        "notes": "Checks read func_adl from /repo's working tree (editable install in /venv, overlay venv /verif/.venv). Exit codes: 0 ok, 1 violation, 3 harness error.",
    }
    with open(os.path.join(ROOT, "MANIFEST.json"), "w") as f:
        json.dump(m, f, indent=1)
    print("checks:", [c["property_id"] for c in checks], "n/a:", len(na))


if __name__ == "__main__":
    main()
