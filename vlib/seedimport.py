"""Development tool: copy seeds produced in a scratch worktree (seedCxx_k.diff, demoCxx_k.py) into /verif/seeded/Cxx_<k+offset>/.

usage: python -m vlib.seedimport <Cxx> [<scratch root, default /tmp/seed>] [<index offset, default 0>]"""
import json
import os
import shutil
import sys

pid = sys.argv[1]
root = sys.argv[2] if len(sys.argv) > 2 else "/tmp/seed"
off = int(sys.argv[3]) if len(sys.argv) > 3 else 0
wt = "%s/wt_%s" % (root, pid)
for k in (1, 2, 3):
    d = os.path.join(wt, "seed%s_%d.diff" % (pid, k))
    m = os.path.join(wt, "demo%s_%d.py" % (pid, k))
    if not (os.path.exists(d) and os.path.exists(m)):
        continue
    out = "/verif/seeded/%s_%d" % (pid, k + off)
    os.makedirs(out, exist_ok=True)
    shutil.copy(d, os.path.join(out, "patch.diff"))
    shutil.copy(m, os.path.join(out, "demo.py"))
    meta = {"property": pid, "origin": "independent sub-agent given only the property text and a scratch worktree", "needs_to_manifest": "", "verified": None, "detected_by": None}
    mp = os.path.join(out, "meta.json")
    if not os.path.exists(mp):
        json.dump(meta, open(mp, "w"), indent=1)
    print("imported", out)
