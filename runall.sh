#!/bin/bash
# development helper: run every check's quick (or given) tier sequentially and summarise
tier=${1:-quick}
cd /verif
for p in $(python3 -c "import json;print(' '.join(c['property_id'] for c in json.load(open('MANIFEST.json'))['checks']))"); do
  s=$(date +%s)
  out=$(./vf check $p --tier $tier 2>&1); rc=$?
  e=$(date +%s)
  echo "$p rc=$rc $((e-s))s $(echo "$out" | grep -c VIOLATION) viol $(echo "$out" | grep -c HARNESS-ERROR) herr $(echo "$out" | grep -o 'inconclusive=[0-9]*' | tail -1)"
done
