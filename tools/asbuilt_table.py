"""development helper: markdown table of the last run recorded in evidence/*.json (tier, wall, partitions / paths, programs / queries)."""
import glob
import json
import os

ROOT = os.path.dirname(os.path.dirname(os.path.abspath(__file__)))
print("| id | tier | wall s | engine S: partitions confirmed / paths (reaching the code) / z3 checks | engine T: programs / z3 checks / re-decided by other solvers | inconclusive |")
print("|---|---|---|---|---|---|")
for f in sorted(glob.glob(os.path.join(ROOT, "evidence", "C*.json"))):
    d = json.load(open(f))
    c = d.get("coverage", {})
    s = ""
    if c.get("s_partitions"):
        s = "%s/%s / %s (%s) / %s" % (c.get("s_partitions_confirmed_over_all_paths"), c.get("s_partitions"), c.get("s_paths"), c.get("s_paths_reaching_code_under_test"), c.get("s_z3_check_calls"))
    t = ""
    if c.get("programs"):
        x = c.get("t_queries_redecided_by_other_solvers") or {}
        xs = ", ".join("%s %d agree %d unknown %d disagree" % (k, v["agree"], v["unknown"], v["disagree"]) for k, v in sorted(x.items()))
        t = "%s / %s / %s" % (c.get("programs"), c.get("t_z3_check_calls"), xs or "-")
    inc = c.get("inconclusive_count", len(d.get("inconclusive", []) or []))
    print("| %s | %s | %s | %s | %s | %s |" % (d.get("property_id"), d.get("tier"), d.get("wall_s"), s, t, inc))
