#!/bin/bash
# development helper: run the thorough tier of the given checks one after the other (each under a wall-time guard) and print one line per check
cd "$(dirname "$0")/.." || exit 3
for p in "$@"; do
  s=$(date +%s)
  out=$(timeout ${THOROUGH_GUARD:-2400} ./vf check $p --tier thorough 2>&1); rc=$?
  e=$(date +%s)
  echo "$p thorough rc=$rc $((e-s))s viol=$(echo "$out" | grep -c '^VIOLATION') herr=$(echo "$out" | grep -c HARNESS-ERROR) $(echo "$out" | grep "^$p thorough" | cut -c1-400)"
done
