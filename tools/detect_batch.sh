#!/bin/bash
# development helper: run the registered quick check of each seed's property against the seed (scratch worktree of /repo; /repo untouched)
# usage: tools/detect_batch.sh <outdir> seed...
cd "$(dirname "$0")/.." || exit 3
out=$1; shift
mkdir -p "$out"
for s in "$@"; do
  /verif/.venv/bin/python -m vlib.seedtest detectw seeded/$s > "$out/$s.json" 2>&1
  echo "$s $(python3 -c "import json,sys; d=json.load(open('$out/$s.json')); print({k:(v['rc'],v['violations'],v['first'][:1]) for k,v in d.items()} if 'error' not in d else d)" 2>&1 | tail -1)"
done
