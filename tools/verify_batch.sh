#!/bin/bash
# development helper: verify seeds in scratch worktrees (clean: demo passes; patched: demo fails and 412 tests pass)
cd "$(dirname "$0")/.." || exit 3
out=$1; shift
mkdir -p "$out"
for s in "$@"; do
  /verif/.venv/bin/python -m vlib.seedtest verify seeded/$s > "$out/$s.verify.json" 2>&1
  echo "$s $(python3 -c "import json; d=json.load(open('$out/$s.verify.json')); print(d.get('ok'), d.get('clean_demo_rc'), d.get('patched_demo_rc'), d.get('patched_tests_rc'), d.get('apply_rc'))" 2>&1 | tail -1)"
done
