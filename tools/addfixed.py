"""development helper: python3 tools/addfixed.py <Cxx> <commit> <what failed...>  -> appends a 'fixed:' line to known_findings.json"""
import json, sys
p = "/verif/known_findings.json"
d = json.load(open(p))
d["fixed"].append("fixed: property=%s %s %s" % (sys.argv[1], sys.argv[2], " ".join(sys.argv[3:])))
json.dump(d, open(p, "w"), indent=1, ensure_ascii=False)
