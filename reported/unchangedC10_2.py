"""UNCHANGED library vs C10: valid inputs that end in an internal error (not a ValueError)."""
import ast
import logging
import sys

import func_adl
from func_adl import ObjectStream

logging.disable(logging.CRITICAL)
pass

problems = []
for src in (
    "lambda e: 'abc'.x[1](2)",  # AttributeError: getattr(str, 'x') in the parameterized-call branch
    "lambda e: {'a': e.x}[[1]]",  # TypeError: unhashable type 'list' in the dict key lookup
    "lambda e, /: e.x",  # AssertionError: one positional-only parameter
    "lambda *e: e",  # AssertionError: one star parameter
):
    for op in ("Select", "SelectMany"):
        ds = ObjectStream(ast.Name("ds", ast.Load()))
        try:
            getattr(ds, op)(src)
        except ValueError:
            pass
        except Exception as e:  # noqa
            problems.append(f"{op}({src!r}) raised {type(e).__name__}: {str(e)[:90]}")

if problems:
    print("C10 VIOLATED by the unchanged library (internal errors):")
    for p in problems:
        print("  -", p)
    sys.exit(1)
print("OK")
