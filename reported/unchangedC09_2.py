"""C09 on the UNCHANGED library: a method callback that returns a call site in which an
*existing positional argument* is replaced is honoured at depth 0, but not when the call is the
whole body of a nested lambda: fixup_ast_from_modifications only carries over the function,
the keywords and arguments *appended* beyond the original count, so the emitted nested lambda
keeps the old argument. Exits non-zero when the violation is observed.
"""
import ast
import copy
import sys
from typing import Iterable

from func_adl import EventDataset
from func_adl.type_based_replacement import func_adl_callback

log = []


def jet_cb(s, a: ast.Call):
    log.append(ast.unparse(a))
    new_call = copy.copy(a)
    # translate the symbolic working point into the number the backend wants
    new_call.args = [ast.Constant(value=77)] + list(a.args[1:])
    return s.MetaData({"jet": "wp"}), new_call


@func_adl_callback(jet_cb)
class Jet:
    def btag(self, wp: str) -> bool: ...  # noqa


class Evt:
    def Jets(self) -> Iterable[Jet]: ...  # noqa

    def LeadJet(self) -> Jet: ...  # noqa


class DS(EventDataset[Evt]):
    def __init__(self):
        super().__init__(Evt)

    async def execute_result_async(self, a, title=None):
        return a


bad = []
for label, q in [
    ("depth 0", "lambda e: e.LeadJet().btag('tight')"),
    ("depth 1, whole lambda body", "lambda e: e.Jets().Select(lambda j: j.btag('tight'))"),
]:
    log.clear()
    r = DS().Select(q).query_ast
    sites = [
        n
        for n in ast.walk(r.args[1])
        if isinstance(n, ast.Call) and isinstance(n.func, ast.Attribute) and n.func.attr == "btag"
    ]
    args = [ast.unparse(x) for x in sites[0].args]
    if len(log) != 1 or args != ["77"]:
        bad.append(f"{label}: callback returned btag(77), emitted: {ast.unparse(r)}")

if bad:
    print("C09 VIOLATED on the unchanged library (replaced positional argument lost):")
    for b in bad:
        print(" -", b)
    sys.exit(1)
print("OK")
