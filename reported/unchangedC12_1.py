"""C12 on the UNCHANGED library: a query that builds fine can make value() raise an error of the
library's own, without the dataset's executor ever being invoked.

The empty-MetaData clean-up in value_async() looks at *every* call to a name `MetaData` with two
arguments anywhere in the query - also inside the user's lambdas - and runs ast.literal_eval on
the second argument. If that argument is not a literal (here: a user function that happens to be
called MetaData, applied to two expressions), literal_eval raises ValueError and the executor is
never reached. Property C12 says each value() invokes exactly one executor exactly once and
returns/raises exactly what that executor returned/raised.
"""
import ast
import sys
from typing import Any, List, Optional

import func_adl
from func_adl import EventDataset


class LoggingDataset(EventDataset):
    def __init__(self):
        super().__init__()
        self.calls: List[str] = []

    async def execute_result_async(self, a: ast.AST, title: Optional[str] = None) -> Any:
        self.calls.append(ast.unparse(a))
        return "result"


print("func_adl from", func_adl.__file__)
ds = LoggingDataset()
q = ds.Select("lambda e: MetaData(e.run, e.lumi)")  # builds without complaint
assert ds.calls == []

try:
    r = q.value(title="t")
except Exception as ex:  # noqa
    print(
        f"C12 VIOLATED (unchanged library): value() raised {type(ex).__name__}: {ex}\n"
        f"  executor invocations: {len(ds.calls)} (expected 1); the executor raised nothing"
    )
    sys.exit(1)

if r != "result" or ds.calls != [ast.unparse(q.query_ast)]:
    print("C12 VIOLATED (unchanged library): result", r, "calls", ds.calls)
    sys.exit(1)
print("OK")
