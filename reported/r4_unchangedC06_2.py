"""UNCHANGED library, C06: a dataclass / NamedTuple constructor call with a starred argument.
Python spreads the sequence over the fields; the lowering binds the whole starred expression to
the first field (and produces a dictionary that is not even valid python) instead of binding
as python does or raising ValueError.
"""
import ast
import sys
from dataclasses import dataclass
from typing import NamedTuple

from func_adl.ast.syntatic_sugar import resolve_syntatic_sugar
from func_adl.util_ast import parse_as_ast


@dataclass
class P:
    x: int
    y: int


class N(NamedTuple):
    x: int
    y: int


def case(f):
    return f


f_dataclass = case(lambda e: P(*e))
f_namedtuple = case(lambda e: N(*e))

bad = 0
for f in (f_dataclass, f_namedtuple):
    obj = f([10, 20])
    expected = {"x": obj.x, "y": obj.y}
    try:
        lam = resolve_syntatic_sugar(parse_as_ast(f, "case"))
    except ValueError:
        continue  # refusing would be fine
    assert isinstance(lam, ast.Lambda)
    body = lam.body
    keys = [k.value for k in body.keys] if isinstance(body, ast.Dict) else None  # type: ignore
    print(f"python binds {expected}; lowered to {ast.unparse(lam)} (keys {keys})")
    bad += 1
if bad:
    sys.exit(1)
print("OK")
