"""UNCHANGED library, C14: an attribute that is applied to something that only *becomes* a First(...) call after
substitution / after an inner projection is not moved past the First(), so the dictionary built under it stays
(visit_Attribute looks for First() in the unvisited operand only; the subscript spelling d["lead"]["pt"] works)."""
import ast
import sys

import func_adl
from func_adl import ObjectStream
from func_adl.ast import change_extension_functions_to_calls, simplify_chained_calls


class DS(ObjectStream):
    def __init__(self):
        super().__init__(ast.Name("ev", ast.Load()))


def check(name, q):
    original = ast.unparse(q.query_ast)
    r = simplify_chained_calls().visit(change_extension_functions_to_calls(q.query_ast))
    left = sorted(
        {
            type(n).__name__
            for n in ast.walk(r)
            if isinstance(n, (ast.Tuple, ast.List, ast.Dict, ast.Subscript))
        }
    )
    if left:
        print(f"VIOLATION [{name}]: {left} left in the simplified query")
        print("   query:      ", original)
        print("   simplified: ", ast.unparse(r))
        return 1
    return 0


pass
bad = 0
bad += check(
    "control: subscript spelling",
    DS()
    .Select("lambda e: {'lead': e.jets.Select(lambda j: {'pt': j.pt, 'eta': j.eta}).First(), 'met': e.met}")
    .Select("lambda d: d['lead']['pt'] + d['met']"),
)
bad += check(
    "dictionary handed on as First(), taken apart by attribute in the next stage",
    DS()
    .Select("lambda e: {'lead': e.jets.Select(lambda j: {'pt': j.pt, 'eta': j.eta}).First(), 'met': e.met}")
    .Select("lambda d: d.lead.pt + d.met"),
)
bad += check(
    "nested dictionaries under First(), attribute chain in the same stage",
    DS().Select("lambda e: e.jets.Select(lambda j: {'kin': {'pt': j.pt}}).First().kin.pt"),
)
if bad:
    print("FAILED")
    sys.exit(1)
print("OK")
