"""UNCHANGED library violates C08: util_types.get_inherited replaces a generic base class by
`typing.<name>` whenever the base's *name* happens to exist in the typing module. A user model
whose generic base class is called e.g. Sequence / Collection / Container loses the method's
declared return type (the follower answers Any and logs 'Method ... not found')."""
import ast
import logging
import sys
from typing import Generic, TypeVar

from func_adl import ObjectStream

logging.disable(logging.CRITICAL)

T = TypeVar("T")


class Plain(Generic[T]):
    def head(self) -> T: ...


class PlainSub(Plain[T]):
    pass


class Sequence(Generic[T]):  # user class, same name as typing.Sequence
    def head(self) -> T: ...


class JetSeq(Sequence[T]):
    pass


class Event:
    def plain(self) -> PlainSub[int]: ...

    def seq(self) -> JetSeq[int]: ...


s = ObjectStream[Event](ast.Name(id="ds", ctx=ast.Load()), Event)
problems = []
for what, got, expected in [
    ("PlainSub[int].head()", s.Select(lambda e: e.plain().head()).item_type, int),
    ("JetSeq[int].head()", s.Select(lambda e: e.seq().head()).item_type, int),
]:
    if got != expected:
        problems.append(f"{what}: got {got!r}, annotations imply {expected!r}")

if problems:
    print("C08 VIOLATED (unchanged library)")
    for p in problems:
        print("  " + p)
    sys.exit(1)
print("OK")
