"""C20 on the UNCHANGED library (borderline): the hash depends on how a string literal is
spelled. `u"jets"` and `"jets"` are the same constant (same value, same type) written in two
ways - pure formatting - but python records the prefix in `Constant.kind`, which is a field,
so `ast.dump` - and the hash - differ."""
import ast
import sys
from typing import Optional

from func_adl import EventDataset
from func_adl.ast.ast_hash import calc_ast_hash


class my_event(EventDataset):
    async def execute_result_async(self, a: ast.AST, title: Optional[str] = None):
        return a


h1 = calc_ast_hash(my_event().Select(lambda e: e.Jets("jets")).query_ast)
h2 = calc_ast_hash(my_event().Select(lambda e: e.Jets(u"jets")).query_ast)
if h1 != h2:
    print(f'Jets("jets") and Jets(u"jets") differ only in the spelling of the literal: {h1} != {h2}')
    sys.exit(1)
print("OK")
