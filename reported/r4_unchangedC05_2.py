"""UNCHANGED library, C05: a helper body that assigns with `:=`. The assigned name is local to
the helper in python, but the inliner treats it like any other name: it is not kept apart
from the caller's names (so it overwrites a caller's parameter of the same spelling), and
when it is one of the helper's own parameters the call's argument is substituted for the
assignment target.
"""
import ast
import inspect
import sys

from func_adl.util_ast import parse_as_ast


def run_inlined(fn, *args):
    lam = parse_as_ast(fn)
    # through the text, the way a backend receives it
    text = ast.unparse(lam)
    env = dict(fn.__globals__)
    env.update(inspect.getclosurevars(fn).nonlocals)
    return text, eval(text, env)(*args)


def next_squared(a):
    return (t := a + 1) * t


def bumped_squared(a):
    return (a := a + 1) * a


failures = []


def check(label, fn, *args):
    want = fn(*args)
    text = "?"
    try:
        text, got = run_inlined(fn, *args)
    except Exception as e:  # noqa
        try:
            text = ast.unparse(parse_as_ast(fn))
        except Exception:
            pass
        failures.append(
            f"{label}: python gives {want!r}, inlined `{text}` fails: {type(e).__name__}: {e}"
        )
        return
    if got != want:
        failures.append(f"{label}: python gives {want!r}, inlined `{text}` gives {got!r}")


check("control next_squared(e)", lambda e: next_squared(e), 5)
# the helper's `t` overwrites the caller's `t`
check("next_squared(t) + t", lambda t: next_squared(t) + t, 5)
# the helper re-binds its own parameter: the caller's `e` is overwritten ...
check("bumped_squared(e) + e", lambda e: bumped_squared(e) + e, 5)
# ... and an argument that is not a name ends up as assignment target
check("bumped_squared(e * 2)", lambda e: bumped_squared(e * 2), 5)

if failures:
    print("C05 violated by the unchanged library:")
    for f in failures:
        print("  " + f)
    sys.exit(1)
print("OK")
