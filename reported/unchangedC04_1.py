"""C04 on the UNCHANGED library: names bound by a nested lambda are replaced by a captured
value when they are positional-only, keyword-only or star parameters (only the plain
positional parameters are put on the ignore stack)."""
import ast
import sys

from func_adl import ObjectStream

j = 99
ds = ObjectStream[object](ast.Name("ds", ast.Load()))

streams = {
    "plain parameter (control)": ds.Select(lambda e: e.jets.Select(lambda j: j + 1)),
    "positional-only parameter": ds.Select(lambda e: e.jets.Select(lambda j, /: j + 1)),
    "keyword-only parameter": ds.Select(lambda e: e.jets.Select(lambda *, j: j + 1)),
    "star parameter": ds.Select(lambda e: e.jets.Select(lambda *j: j + 1)),
}

problems = []
for label, s in streams.items():
    lam = s.query_ast.args[1]
    if any(isinstance(n, ast.Constant) and n.value == 99 for n in ast.walk(lam)):
        problems.append(f"{label}: the nested lambda's own `j` was replaced: {ast.unparse(lam)}")

if problems:
    print("C04 VIOLATED (unchanged library)")
    for p in problems:
        print("  " + p)
    sys.exit(1)
print("OK")
