"""C14 on the UNCHANGED library: a negative constant index is not compiled away.

`t[-1]` is a constant index (python writes it as a unary minus applied to the literal 1),
but the simplifier only resolves subscripts whose index is an ast.Constant, so the tuple
display and the subscript both survive in the simplified query.
"""
import ast
import sys

from func_adl import ObjectStream
from func_adl.ast.func_adl_ast_utils import change_extension_functions_to_calls
from func_adl.ast.function_simplifier import simplify_chained_calls

ds = ObjectStream(ast.Name("ev", ast.Load()))
queries = {
    "t[1]": ds.Select(lambda e: (e.a, e.b)).Select(lambda t: t[1]),
    "t[-1]": ds.Select(lambda e: (e.a, e.b)).Select(lambda t: t[-1]),
    "l[-2]": ds.Select(lambda e: [e.a, e.b]).Where(lambda l: l[-2] > 0).Select(lambda l: l[-1]),
}
failed = False
for name, q in queries.items():
    r = simplify_chained_calls().visit(change_extension_functions_to_calls(q.query_ast))
    left = [
        f"{type(n).__name__} `{ast.unparse(n)}`"
        for n in ast.walk(r)
        if isinstance(n, (ast.Tuple, ast.List, ast.Dict, ast.Subscript))
    ]
    print(("FAIL" if left else "ok  "), f"[{name}]", ast.unparse(r), left if left else "")
    failed = failed or bool(left)
if failed:
    print("C14 VIOLATED (unchanged library)")
    sys.exit(1)
print("OK")
