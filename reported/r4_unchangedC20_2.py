"""C20 on the UNCHANGED library: for a long (but legal, and buildable) query chain
calc_ast_hash returns no value at all - ast.dump is recursive and hits the recursion limit."""
import ast
import sys
from typing import Optional

from func_adl import EventDataset
from func_adl.ast.ast_hash import calc_ast_hash


class my_event(EventDataset):
    async def execute_result_async(self, a: ast.AST, title: Optional[str] = None):
        return a


q = my_event()
for i in range(400):
    q = q.Select(lambda e: e.x)
try:
    h = calc_ast_hash(q.query_ast)
except RecursionError as e:
    print("calc_ast_hash raised RecursionError on a chain of 400 Select calls:", str(e)[:60])
    sys.exit(1)
print("OK", h)
