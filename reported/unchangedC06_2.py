"""UNCHANGED library violates C06: a constructor call that gives the same field both
positionally and by keyword (python: TypeError "got multiple values for argument 'x'") is not
refused with ValueError - the keyword value is silently dropped (dataclass and NamedTuple alike)."""

import ast
import sys
from dataclasses import dataclass
from typing import NamedTuple

from func_adl import ObjectStream


@dataclass
class dc:
    x: int
    y: int


class NT(NamedTuple):
    x: int
    y: int


ds = ObjectStream(ast.Name(id="ds", ctx=ast.Load()))


def main():
    bad = 0
    try:
        s = ds.Select(lambda e: dc(e.a, x=e.b))  # type: ignore
        print("FAIL: dc(e.a, x=e.b) accepted ->", ast.unparse(s.query_ast))
        bad += 1
    except ValueError:
        pass
    try:
        s = ds.Select(lambda e: NT(e.a, x=e.b))  # type: ignore
        print("FAIL: NT(e.a, x=e.b) accepted ->", ast.unparse(s.query_ast))
        bad += 1
    except ValueError:
        pass
    if bad:
        return 1
    print("OK")
    return 0


if __name__ == "__main__":
    sys.exit(main())
