"""C02, UNCHANGED library: constant projection out of a dict literal takes the FIRST entry whose
key matches, Python takes the LAST one (duplicate keys; 1 and True are distinct for the library's
type test only in one direction: {1: a, True: b}[1] is b in Python, a after simplification).
"""
import ast
import copy
import sys

import func_adl

pass
from func_adl.ast import simplify_chained_calls  # noqa: E402


class Seq(list):
    def Select(self, f):
        return Seq(f(x) for x in self)

    def Where(self, f):
        return Seq(x for x in self if f(x))

    def SelectMany(self, f):
        return Seq(y for x in self for y in f(x))

    def First(self):
        return self[0]

    def Count(self):
        return len(self)


ENV = {
    "Select": lambda s, f: Seq(f(x) for x in s),
    "Where": lambda s, f: Seq(x for x in s if f(x)),
    "SelectMany": lambda s, f: Seq(y for x in s for y in f(x)),
    "First": lambda s: list(s)[0],
    "Count": lambda s: len(list(s)),
}


class Obj:
    def __init__(self, **kw):
        self.__dict__.update(kw)

    def __repr__(self):
        return "Obj(%s)" % ", ".join(f"{k}={v!r}" for k, v in sorted(self.__dict__.items()))

    def __eq__(self, o):
        return isinstance(o, Obj) and self.__dict__ == o.__dict__

    def scaled(self, k, off=0):
        return self.pt * k + off


def mk_ds():
    evs = Seq()
    for i in range(1, 4):
        jets = Seq(
            Obj(
                pt=10.0 * i + j,
                n=50 + j,
                tracks=Seq(Obj(pt=float(i + j + t), n=70 + t) for t in range(1, 3)),
            )
            for j in range(1, 4)
        )
        evs.append(Obj(jets=jets, x=1000 * i, n=i))
    return evs


def ev(tree, ds):
    e = ast.Expression(copy.deepcopy(tree).body[0].value)
    ast.fix_missing_locations(e)
    env = dict(ENV)
    env["ds"] = ds
    return eval(compile(e, "<query>", "eval"), env)


QUERIES = [
    "Select(ds, lambda e: {'a': e.x, 'b': e.n}['a'])",
    "Select(ds, lambda e: {'a': e.x, 'a': e.n}['a'])",
    'Select(ds, lambda e: {1: e.x, True: e.n}[1])',
    "Select(Select(ds, lambda e: {'v': e.x, 'w': e.n, 'v': e.n + 1}), lambda d: d['v'])",
]


def main():
    bad = 0
    for src in QUERIES:
        tree = ast.parse(src)
        want = ev(tree, mk_ds())
        new_src = ast.unparse(simplify_chained_calls().visit(copy.deepcopy(tree)))
        try:
            got = ev(ast.parse(new_src), mk_ds())
        except Exception as ex:  # the original evaluated fine, so this is a violation
            bad += 1
            print("VIOLATION (simplified query fails where the original evaluates)")
            print("  original  :", src)
            print("  simplified:", new_src)
            print("  original value:", want)
            print("  simplified raised:", type(ex).__name__, ex)
            continue
        if got != want:
            bad += 1
            print("VIOLATION (simplified query evaluates to a different value)")
            print("  original  :", src)
            print("  simplified:", new_src)
            print("  original value  :", want)
            print("  simplified value:", got)
    if bad:
        print(f"{bad} of {len(QUERIES)} queries changed meaning under simplify_chained_calls")
        return 1
    print("OK")
    return 0


if __name__ == "__main__":
    sys.exit(main())
