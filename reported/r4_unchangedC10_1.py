"""Unchanged library, C10: a conditional whose two branches are both strings is refused as
"incompatible branch types", because the type follower types every non-float arithmetic on
python values as int - also `str * int` and `str % value` (which are strings)."""
import ast
import logging
import sys

logging.disable(logging.CRITICAL)

from func_adl import ObjectStream  # noqa: E402

problems = []
for src in [
    "lambda x: '-' * 3 if x.flag else 'none'",
    "lambda x: 'none' if x.flag else 3 * '-'",
    "lambda x: '%d jets' % 3 if x.flag else 'none'",
    "lambda x: b'-' * 3 if x.flag else b''",
]:
    plain = ObjectStream(ast.Name("ds", ast.Load()))
    try:
        r = plain.Select(src)
        if ast.dump(r.query_ast.args[1]) != ast.dump(ast.parse(src).body[0].value):  # type: ignore
            problems.append(f"{src!r}: emitted {ast.unparse(r.query_ast.args[1])!r}")  # type: ignore
    except Exception as e:
        problems.append(f"{src!r}: {type(e).__name__}: {e}")

if problems:
    print("C10 violated by the unchanged library (both branches are strings/bytes in python):")
    for p in problems:
        print("  -", p)
    sys.exit(1)
print("OK")
