"""C20 on the UNCHANGED library (borderline / pedantic): "the hash changes whenever a
constant's ... type changes" - but calc_ast_hash renders a constant with repr(), so a
captured value whose type is a plain subclass of int / float / str (no __repr__ of its own)
hashes exactly like the builtin literal, although ast.Constant.value has another type.

Exits non-zero when that is observed.
"""
import ast
import sys
from typing import Optional

from func_adl import EventDataset
from func_adl.ast.ast_hash import calc_ast_hash


class DS(EventDataset):
    async def execute_result_async(self, a: ast.AST, title: Optional[str] = None):
        return a


class Threshold(float):
    "A float with a unit attached, say"
    unit = "GeV"


class Index(int):
    pass


def const_types(a: ast.AST):
    return [type(n.value).__name__ for n in ast.walk(a) if isinstance(n, ast.Constant)]


bad = []
for special, plain in [(Threshold(30.0), 30.0), (Index(2), 2)]:
    a1 = DS().Select(lambda e: e.Jets("jets", special)).value()
    a2 = DS().Select(lambda e: e.Jets("jets", plain)).value()
    if const_types(a1) != const_types(a2) and calc_ast_hash(a1) == calc_ast_hash(a2):
        bad.append(
            f"constants of type {const_types(a1)} vs {const_types(a2)} -> same hash "
            f"{calc_ast_hash(a1)}"
        )

if bad:
    print("C20 VIOLATED on the unchanged tree (constant's type differs, hash does not):")
    for b in bad:
        print("  -", b)
    sys.exit(1)
print("OK")
