"""UNCHANGED library, C14 (binder-name choices): a nested lambda whose parameter the user happens to call arg_<n>
can coincide with a name the simplifier generates; it then hides the pending substitution and t[1] is left as
arg_<n>[1] (a Subscript on the wrong variable). Which n collides depends on the counter, so a range is tried."""
import ast
import sys

import func_adl
from func_adl import ObjectStream
from func_adl.ast import change_extension_functions_to_calls, simplify_chained_calls


class DS(ObjectStream):
    def __init__(self):
        super().__init__(ast.Name("ev", ast.Load()))


def check(name, q):
    original = ast.unparse(q.query_ast)
    r = simplify_chained_calls().visit(change_extension_functions_to_calls(q.query_ast))
    left = sorted(
        {
            type(n).__name__
            for n in ast.walk(r)
            if isinstance(n, (ast.Tuple, ast.List, ast.Dict, ast.Subscript))
        }
    )
    if left:
        print(f"VIOLATION [{name}]: {left} left in the simplified query")
        print("   query:      ", original)
        print("   simplified: ", ast.unparse(r))
        return 1
    return 0


pass
bad = 0
for n in range(0, 60):
    bad += check(
        f"nested binder arg_{n}",
        DS()
        .Select("lambda e: (e.jets, e.met)")
        .Select(f"lambda t: t[0].Select(lambda arg_{n}: arg_{n}.pt + t[1]).Sum()"),
    )
if bad:
    print(f"FAILED for {bad} binder names")
    sys.exit(1)
print("OK")
