"""C11 on the UNCHANGED library: Select / SelectMany / Where copy an `ast.Lambda` handed in by
the user only when `known_types` is empty. `known_types` is a documented parameter of the three
methods (described as "internal use", but nothing stops a caller from using it to give the
types of free names of the function). With a non-empty `known_types`, two streams derived from
the same `ast.Lambda` object share its nodes, and the type follower's in-place fix-ups done for
the second stream show up in the first one.
"""
import ast
import sys
from typing import Iterable

from func_adl import EventDataset


class JetA:
    def pt(self) -> float: ...  # noqa


class EventA:
    def jets(self) -> Iterable[JetA]: ...  # noqa


class JetB:
    def pt(self, scale: float = 1.0) -> float: ...  # noqa


class EventB:
    def jets(self, collection: str = "antikt") -> Iterable[JetB]: ...  # noqa


class DS(EventDataset):
    async def execute_result_async(self, a: ast.AST, title=None):
        return a


def main() -> int:
    ds_a, ds_b = DS(EventA), DS(EventB)
    f = ast.parse("lambda e: e.jets().Select(lambda j: j.pt() * k)").body[0].value  # type: ignore
    s1 = ds_a.Select(f, known_types={"k": int})
    before = ast.dump(s1.query_ast)
    before_text = ast.unparse(s1.query_ast)
    ds_b.Select(f, known_types={"k": int})
    if ast.dump(s1.query_ast) != before:
        print("C11 VIOLATED on the unchanged library: deriving a stream on another dataset")
        print("changed the query of an existing stream")
        print(f"    was: {before_text}\n    now: {ast.unparse(s1.query_ast)}")
        return 1
    print("OK")
    return 0


if __name__ == "__main__":
    sys.exit(main())
