"""Unchanged library, C10: a conditional between two dictionary literals - even of identical
shape and field types - is refused as "incompatible branch types": every dictionary literal
gets a dataclass of its own, and two such classes never compare equal."""
import ast
import logging
import sys

logging.disable(logging.CRITICAL)

from func_adl import ObjectStream  # noqa: E402

problems = []
for src in [
    "lambda x: {'pt': 1} if x.flag else {'pt': 2}",
    "lambda x: {'pt': x.a, 'eta': x.b} if x.flag else {'pt': x.c, 'eta': x.d}",
]:
    plain = ObjectStream(ast.Name("ds", ast.Load()))
    try:
        r = plain.Select(src)
        if ast.dump(r.query_ast.args[1]) != ast.dump(ast.parse(src).body[0].value):  # type: ignore
            problems.append(f"{src!r}: emitted {ast.unparse(r.query_ast.args[1])!r}")  # type: ignore
    except Exception as e:
        problems.append(f"{src!r}: {type(e).__name__}: {e}")

if problems:
    print("C10 violated by the unchanged library (the branches have the same shape and types):")
    for p in problems:
        print("  -", p)
    sys.exit(1)
print("OK")
