"""C13 on the UNCHANGED library: some of the value types the property lists are not embedded
but refused when they come in as a declared default value or as a captured variable.

  - None (declared default `= None`, captured variable holding None): ValueError from the
    constant gate (NoneType is not in g_legal_capture_types)
  - a list / tuple / dict of scalars as a captured variable or declared default: it is put into
    a single ast.Constant holding the collection, which the gate then refuses
The same values are embedded faithfully by MetaData / AsPandasDF (via as_ast).
"""
import ast
import sys

from func_adl import ObjectStream


class Evt:
    def jets(self, name: str = None, n: int = -1) -> int: ...  # noqa

    def tracks(self, cones: tuple = (0.2, 0.4)) -> int: ...  # noqa


ds = ObjectStream[Evt](ast.Name(id="ds", ctx=ast.Load()), Evt)
failures = []


def literal_of(label, build, expected, pick):
    try:
        lam = build().query_ast.args[1]
    except ValueError as e:
        failures.append(f"{label}: {expected!r} was refused: {e}")
        return
    got = ast.literal_eval(pick(lam))
    if got != expected or type(got) is not type(expected):
        failures.append(f"{label}: {expected!r} came out as {got!r}")


nothing = None
runs = [1, 2, 3]
cuts = {"pt": 30.0}


def q_default_none():
    return ds.Select(lambda e: e.jets())


def q_default_tuple():
    return ds.Select(lambda e: e.tracks())


def q_captured_none():
    return ds.Select(lambda e: e.jets(nothing))


def q_captured_list():
    return ds.Select(lambda e: e.jets(runs))


def q_captured_dict():
    return ds.Select(lambda e: e.jets(cuts))


def first_arg(lam):
    return lam.body.args[0]


literal_of("declared default None", q_default_none, None, first_arg)
literal_of("declared default tuple", q_default_tuple, (0.2, 0.4), first_arg)
literal_of("captured None", q_captured_none, None, first_arg)
literal_of("captured list", q_captured_list, [1, 2, 3], first_arg)
literal_of("captured dict", q_captured_dict, {"pt": 30.0}, first_arg)

if failures:
    print("C13 violated by the unchanged library:")
    for f in failures:
        print("  " + f)
    sys.exit(1)
print("OK")
