"""Unchanged library, C10 (debatable - depends on whether the two built-in registered functions
`abs` and `len` count as sugar): on an untyped stream a call of the *name* abs/len - even
when that name is the lambda's own parameter - has keyword arguments moved to positional
ones (the emitted lambda differs from the written one), and a call with no argument is
refused with a ValueError that is not one of the designed refusals."""
import ast
import logging
import sys

logging.disable(logging.CRITICAL)

from func_adl import ObjectStream  # noqa: E402

problems = []
for src in [
    "lambda e: abs(x=e.a)",
    "lambda len: len(x=1)",
    "lambda abs: abs()",
]:
    plain = ObjectStream(ast.Name("ds", ast.Load()))
    try:
        r = plain.Select(src)
        if ast.dump(r.query_ast.args[1]) != ast.dump(ast.parse(src).body[0].value):  # type: ignore
            problems.append(f"{src!r}: emitted {ast.unparse(r.query_ast.args[1])!r}")  # type: ignore
    except Exception as e:
        problems.append(f"{src!r}: {type(e).__name__}: {e}")

if problems:
    print("C10 (debatable) violated by the unchanged library:")
    for p in problems:
        print("  -", p)
    sys.exit(1)
print("OK")
