"""C01 on the UNCHANGED library: a nested Select whose lambda is passed by keyword
on an untyped dataset.

`e.jets.Select(f=lambda j: j.pt)` is legal python (the parameter of Select is called `f`).
On an untyped dataset the keyword stays a keyword in the AST handed to the executor (fine), but
change_extension_functions_to_calls builds `Select(e.jets)` from it: the lambda is dropped.
simplify_chained_calls then fails with an IndexError on that call.
"""
import ast
import copy
import logging
import sys
from types import SimpleNamespace as NS

import func_adl
from func_adl import EventDataset
from func_adl.ast import (
    aggregate_node_transformer,
    change_extension_functions_to_calls,
    simplify_chained_calls,
)

logging.disable(logging.CRITICAL)


# ---------------------------------------------------------------- in-memory LINQ semantics
class Seq(list):
    def Select(self, f):
        return Seq(f(x) for x in self)

    def Where(self, f):
        return Seq(x for x in self if f(x))

    def SelectMany(self, f):
        return Seq(y for x in self for y in f(x))

    def First(self):
        return self[0]

    def Count(self):
        return len(self)

    def Min(self):
        return min(self)

    def Max(self):
        return max(self)


class Rec(dict):
    def __getattr__(self, k):
        try:
            return self[k]
        except KeyError:
            raise AttributeError(k)


def _aggregate(seq, init, f):
    acc = init
    for v in seq:
        acc = f(acc, v)
    return acc


class _DictToRec(ast.NodeTransformer):
    def visit_Dict(self, node):
        self.generic_visit(node)
        return ast.Call(ast.Name("_rec", ast.Load()), [node], [])


def evaluate(a, data):
    "Read a query AST under ordinary LINQ/list semantics on `data`"
    a = _DictToRec().visit(copy.deepcopy(a))
    env = {
        "EventDataset": lambda *args: Seq(data),
        "Select": lambda s, f: Seq(s).Select(f),
        "Where": lambda s, f: Seq(s).Where(f),
        "SelectMany": lambda s, f: Seq(s).SelectMany(f),
        "First": lambda s: Seq(s).First(),
        "Count": lambda s: Seq(s).Count(),
        "Min": lambda s: Seq(s).Min(),
        "Max": lambda s: Seq(s).Max(),
        "Aggregate": _aggregate,
        "MetaData": lambda s, md: s,
        "ResultAwkwardArray": lambda s, *r: s,
        "_rec": Rec,
    }
    code = compile(ast.fix_missing_locations(ast.Expression(a)), "<query>", "eval")
    return eval(code, env)


def backend(a):
    "The backend-side passes shipped with the library"
    a = copy.deepcopy(a)
    a = change_extension_functions_to_calls(a)
    a = aggregate_node_transformer().visit(a)
    a = simplify_chained_calls().visit(a)
    return a


class DS(EventDataset):
    "Dataset whose executor just gives back the AST it was handed"

    async def execute_result_async(self, a, title=None):
        return a


def norm(v):
    if isinstance(v, dict):
        return {k: norm(x) for k, x in v.items()}
    if isinstance(v, (list, tuple)):
        return [norm(x) for x in v]
    return v


# ---------------------------------------------------------------- data
def J(pt):
    return NS(pt=pt)


def E(jets):
    return NS(jets=Seq(jets))


DATASETS = {"two events": [E([J(10), J(40)]), E([])]}


def chain_keyword_lambda(s):
    return s.Select(lambda e: e.jets.Select(f=lambda j: j.pt))


def main():
    pass
    failures = []
    for chain in (chain_keyword_lambda,):
        raw = chain(DS()).value()
        stages = (
            ("AST given to the executor", raw),
            (
                "after method-form -> function-form only",
                change_extension_functions_to_calls(copy.deepcopy(raw)),
            ),
        )
        try:
            backend(raw)
        except Exception as ex:
            failures.append(
                f"{chain.__name__}: the backend passes fail with {type(ex).__name__}: {ex}"
            )
        for ds_name, data in DATASETS.items():
            expected = norm(chain(Seq(data)))
            for stage, a in stages:
                try:
                    got = norm(evaluate(a, data))
                except Exception as ex:  # the AST does not even evaluate
                    got = f"<{type(ex).__name__}: {ex}>"
                if got != expected:
                    failures.append(
                        f"{chain.__name__} / {stage} / dataset '{ds_name}':\n"
                        f"    python chain computes : {expected}\n"
                        f"    query AST computes    : {got}\n"
                        f"    AST: {ast.unparse(a)}"
                    )
    if failures:
        print("PROPERTY C01 VIOLATED")
        for f in failures:
            print(f)
        return 1
    print("OK")
    return 0


if __name__ == "__main__":
    sys.exit(main())
