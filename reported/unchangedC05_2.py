"""C05 on the UNCHANGED library: a call that hands its argument over starred, `helper(*(y,))`,
is treated as if the starred node were the first positional argument: the helper's parameter
is replaced by `*(y,)` and the resulting tree is not even a valid expression. The call
should have been left alone (or the tuple unpacked).
"""

import ast
import sys

from func_adl.util_ast import parse_as_ast


def add_one(a):
    return a + 1


def top(y):
    return add_one(*(y,))


recovered = parse_as_ast(top)
failures = []
for value in (0, 3, -4):
    want = top(value)
    try:
        code = compile(ast.fix_missing_locations(ast.Expression(recovered)), "<recovered>", "eval")
        got = eval(code, {})(value)
    except Exception as e:
        got = f"{type(e).__name__}: {e}"
    if got != want:
        failures.append(
            f"recovered `{ast.unparse(recovered)}` gives {got!r} for {value!r}, "
            f"python gives {want!r}"
        )
        break

if failures:
    print("C05 VIOLATED on the unchanged library")
    for msg in failures:
        print("  " + msg)
    sys.exit(1)
print("OK")
