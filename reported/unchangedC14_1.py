"""UNCHANGED library, C14: a negative constant index (t[-1]) is never resolved - the parser writes it as a unary minus
applied to 1, which literal projection does not treat as a constant selector. Tuple and Subscript stay."""
import ast
import sys

import func_adl
from func_adl import ObjectStream
from func_adl.ast import change_extension_functions_to_calls, simplify_chained_calls


class DS(ObjectStream):
    def __init__(self):
        super().__init__(ast.Name("ev", ast.Load()))


def check(name, q):
    original = ast.unparse(q.query_ast)
    r = simplify_chained_calls().visit(change_extension_functions_to_calls(q.query_ast))
    left = sorted(
        {
            type(n).__name__
            for n in ast.walk(r)
            if isinstance(n, (ast.Tuple, ast.List, ast.Dict, ast.Subscript))
        }
    )
    if left:
        print(f"VIOLATION [{name}]: {left} left in the simplified query")
        print("   query:      ", original)
        print("   simplified: ", ast.unparse(r))
        return 1
    return 0


pass
bad = 0
bad += check(
    "last element by negative index",
    DS().Select("lambda e: (e.run, e.met)").Select("lambda t: t[-1] * 2"),
)
bad += check(
    "negative index through Where, list packaging",
    DS().Select("lambda e: [e.run, e.met]").Where("lambda t: t[-1] > 10").Select("lambda t: t[0]"),
)
if bad:
    print("FAILED")
    sys.exit(1)
print("OK")
