"""C05 on the UNCHANGED library: when a binder inside a helper (here a comprehension variable
`y`) would capture a name that is free in an argument, it is renamed to `y_r<N>` - but nothing
checks that `y_r<N>` is itself unused. In a fresh process the first rename is `y_r1`; if the
other argument is a variable called `y_r1` it is captured by the renamed binder.
"""

import ast
import sys

from func_adl.util_ast import parse_as_ast


def spread(a, b):
    return [a + y + b for y in (1, 2)]


def top(y, y_r1):
    return spread(y, y_r1)


recovered = parse_as_ast(top)
code = compile(ast.fix_missing_locations(ast.Expression(recovered)), "<recovered>", "eval")
failures = []
for values in ((3, 100), (0, 0), (-1, 7)):
    want = top(*values)
    try:
        got = eval(code, {})(*values)
    except Exception as e:
        got = f"{type(e).__name__}: {e}"
    if got != want:
        failures.append(
            f"recovered `{ast.unparse(recovered)}` gives {got!r} for {values!r}, "
            f"python gives {want!r}"
        )
        break

if failures:
    print("C05 VIOLATED on the unchanged library")
    for msg in failures:
        print("  " + msg)
    sys.exit(1)
print("OK")
