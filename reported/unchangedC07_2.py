"""UNCHANGED library vs C07: a function registered with func_adl_callable that has a parameter
literally called 'self' (legal for a plain function). The signature walk skips it without counting
it, so the defaults of the parameters after it are never filled in.
Exit 0 + OK if the property holds, 1 otherwise."""
import ast
import logging
import sys
from typing import Iterable

from func_adl import ObjectStream, func_adl_callable

logging.disable(logging.CRITICAL)


class Jet:
    def pt(self) -> float: ...  # noqa


class Event:
    def Jets(self, bank: str = "default") -> Iterable[Jet]: ...  # noqa


@func_adl_callable()
def rescale(self: float, factor: float = 5.0) -> float: ...  # noqa


ds = ObjectStream[Event](ast.Name(id="ds", ctx=ast.Load()), Event)
q = ds.Select("lambda e: e.Jets().Select(lambda j: rescale(j.pt()))")
got = ast.unparse(q.query_ast)
if "rescale(j.pt(), 5.0)" not in got:
    print("C07 VIOLATED: default of 'factor' not filled in:", got)
    sys.exit(1)
print("OK")
