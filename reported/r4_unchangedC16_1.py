"""C16 on the UNCHANGED library (borderline): a key re-set to a value that compares equal to the
inherited one but is a different value (1 -> True, 0 -> False, 1 -> 1.0) is silently dropped,
so the lookup keeps returning the old object and not "the value most recently set".

QMetaData decides "nothing new" with `found_md != v`; 1 != True is False in python.
"""

import ast
import sys
from typing import Optional

from func_adl import EventDataset
from func_adl.ast.meta_data import lookup_query_metadata


class my_event(EventDataset):
    async def execute_result_async(self, a: ast.AST, title: Optional[str] = None):
        return a


def main():
    problems = []
    for first, second in [(1, True), (0, False), (1, 1.0), (True, 1)]:
        s = (
            my_event()
            .QMetaData({"flag": first})
            .Select("lambda e: e.jets()")
            .QMetaData({"flag": second})
        )
        got = lookup_query_metadata(s, "flag")
        if type(got) is not type(second) or got != second:
            problems.append(
                f"flag set to {first!r} and then to {second!r}: lookup returns {got!r} "
                f"({type(got).__name__}), most recently set value is {second!r} "
                f"({type(second).__name__})"
            )
    if problems:
        print("C16 VIOLATED on the unchanged library (values equal under == but not the same):")
        for p in problems:
            print("  " + p)
        return 1
    print("OK")
    return 0


if __name__ == "__main__":
    sys.exit(main())
