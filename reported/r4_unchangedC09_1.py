"""C09 on the UNCHANGED library: 'any call-site rewrite it [the callback] returns is what the
emitted query contains'.

A function processor is declared to return Tuple[ObjectStream, ast.AST]: it may replace the call
by an expression that is not a call (here twice(x) -> x * 2). Directly in the lambda of the
stream's Select the rewrite is emitted; one level down, in the lambda of a Select on a typed
collection, the processor is invoked and its MetaData reaches the stream, but the emitted query
still contains the call as written (fixup_ast_from_modifications only carries ast.Call nodes into
the enclosing lambda).
"""

import ast
import sys
from typing import Iterable

from func_adl import ObjectStream, func_adl_callable

LOG = []


def twice_processor(s, a):
    LOG.append(ast.unparse(a))
    rewrite = ast.BinOp(left=a.args[0], op=ast.Mult(), right=ast.Constant(value=2))
    return s.MetaData({"m": "twice"}), rewrite


@func_adl_callable(twice_processor)
def twice(x: float) -> float: ...  # noqa


class Jet:
    def pt(self) -> float: ...  # noqa


class Event:
    def Jets(self) -> Iterable[Jet]: ...  # noqa

    def met(self) -> float: ...  # noqa


bad = []
for text, expected in [
    ("lambda e: twice(e.met())", "lambda e: e.met() * 2"),
    (
        "lambda e: e.Jets().Select(lambda j: twice(j.pt()))",
        "lambda e: e.Jets().Select(lambda j: j.pt() * 2)",
    ),
]:
    LOG.clear()
    ds = ObjectStream[Event](ast.Name(id="ds", ctx=ast.Load()), Event)
    q = ds.Select(text).query_ast
    emitted = ast.unparse(q.args[1])  # type: ignore
    print(f"{text}\n   processor saw {LOG}\n   emitted {ast.unparse(q)}")
    if len(LOG) != 1 or emitted != expected:
        bad.append(text)
        print(f"   EXPECTED lambda {expected}")

if bad:
    print("C09 violated (rewrite returned by the processor is not in the emitted query):", bad)
    sys.exit(1)
print("OK")
