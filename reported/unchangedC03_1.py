"""UNCHANGED library, C03: a one-statement function defined at an indented level whose return
expression holds a multi-line string literal is recorded with a different string.

`_parse_source_for_lambda` re-aligns the function's source with `_realign_indent`, which cuts the
`def` line's indent off EVERY line - including the continuation lines of a triple-quoted string."""

import ast
import sys

from func_adl import ObjectStream


def make():
    def tag(e):
        return e.name == """run
2018-B"""

    return tag


def main():
    tag = make()
    ds = ObjectStream[int](ast.Name(id="ds", ctx=ast.Load()))
    recorded = ds.Select(tag).query_ast.args[1]
    expr = ast.Expression(body=recorded)
    ast.fix_missing_locations(expr)
    rec_fn = eval(compile(expr, "<recorded>", "eval"), {})

    class Ev:
        name = "run\n2018-B"

    want, got = tag(Ev()), rec_fn(Ev())
    print("recorded:", ast.unparse(recorded))
    print("passed callable gives", want, "- recorded lambda gives", got)
    if want != got:
        print("PROPERTY VIOLATED (unchanged library): recorded lambda differs from the function")
        return 1
    print("OK")
    return 0


if __name__ == "__main__":
    sys.exit(main())
