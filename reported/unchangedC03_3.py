"""UNCHANGED library, C03 (first sentence; the mechanism is in `_resolve_called_lambdas`, so this
may belong with the helper-inlining property): a lambda calling a one-line helper that has
positional-only or keyword-only parameters is recorded with the arguments bound to the wrong
parameters / a parameter left as a free name."""

import ast
import sys

from func_adl import ObjectStream


def scaled(e, /, k=3):
    return e.pt * k


def in_gev(e, *, scale=2):
    return e.pt * scale


class Ev:
    pt = 10


def main():
    ds = ObjectStream[int](ast.Name(id="ds", ctx=ast.Load()))
    bad = 0
    seen = []

    class Probe:
        def Select(self, fn):
            try:
                seen.append((fn, ds.Select(fn).query_ast.args[1]))
            except Exception as e:
                print("raised (allowed):", type(e).__name__, e)

    Probe().Select(lambda q: scaled(q))
    Probe().Select(lambda q: in_gev(q))
    for fn, recorded in seen:
        expr = ast.Expression(body=recorded)
        ast.fix_missing_locations(expr)
        want = fn(Ev())
        try:
            got = eval(compile(expr, "<recorded>", "eval"), {})(Ev())
        except Exception as e:
            got = f"{type(e).__name__}: {e}"
        print(f"recorded `{ast.unparse(recorded)}`: passed callable gives {want}, recorded {got}")
        if got != want:
            bad += 1
    if bad:
        print("PROPERTY VIOLATED (unchanged library)")
        return 1
    print("OK")
    return 0


if __name__ == "__main__":
    sys.exit(main())
