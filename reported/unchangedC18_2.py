"""UNCHANGED library, borderline for C18 (semantic intactness of a literal projection): a dict
literal that repeats a constant key. Python keeps the LAST value, the simplifier picks the FIRST."""
import ast
import sys

from func_adl.ast.function_simplifier import simplify_chained_calls

ENV = {"x": 1, "y": 2}
problems = []
for src in ['{"a": x, "a": y}["a"]', "{1: x, 1: y}[1]", '(lambda d: d["a"])({"a": x, "b": x, "a": y})']:
    expected = eval(src, dict(ENV))
    r = simplify_chained_calls().visit(ast.parse(src, mode="eval"))
    text = ast.unparse(ast.fix_missing_locations(r))
    got = eval(compile(text, "<simplified>", "eval"), dict(ENV))
    if got != expected:
        problems.append(f"{src} -> {text!r}: python gives {expected}, simplified gives {got}")

if problems:
    print("semantics changed on the unchanged tree:")
    for p in problems:
        print("  ", p)
    sys.exit(1)
print("OK")
