"""UNCHANGED library vs C07 (exotic call shape): a parameter given through ** unpacking is not
recognised as given; its default is put in positionally as well and the ** stays, so the emitted
call gives the parameter twice (python would reject it) and the user's value is not positional.
Exit 0 + OK if the property holds, 1 otherwise."""
import ast
import logging
import sys
from typing import Iterable

from func_adl import ObjectStream

logging.disable(logging.CRITICAL)


class Jet:
    def pt(self, scale: float = 1.0, shift: float = 0.0) -> float: ...  # noqa


class Event:
    def Jets(self, bank: str = "default") -> Iterable[Jet]: ...  # noqa


ds = ObjectStream[Event](ast.Name(id="ds", ctx=ast.Load()), Event)
q = ds.Select("lambda e: e.Jets().Select(lambda j: j.pt(**{'scale': 3.0}))")
got = ast.unparse(q.query_ast)
if "j.pt(3.0, 0.0)" not in got:
    print("C07 VIOLATED: j.pt(**{'scale': 3.0}) emitted as:", got)
    sys.exit(1)
print("OK")
