"""UNCHANGED library vs C10: a method call on a literal is not passed through unchanged.

The stream has no type information, but a constant receiver has a python type (str, int,
bytes, ...), so the type follower treats `'a,b'.encode()` like a call on a typed object: it
fills in the defaults of the builtin's signature (the emitted lambda differs from the one
given) or refuses with a ValueError that is not one of the designed refusals.
"""
import ast
import logging
import sys

import func_adl
from func_adl import ObjectStream

logging.disable(logging.CRITICAL)
pass

problems = []
for src in (
    "lambda e: 'a'.encode()",  # -> 'a'.encode('utf-8', 'strict')
    "lambda e: 'abc'.replace('a', e.x)",  # -> 'abc'.replace('a', e.x, -1)
    "lambda e: 'a b'.split(sep=e.x)",  # -> 'a b'.split(e.x, -1)
    "lambda e: len(e.jets).to_bytes()",  # -> len(e.jets).to_bytes(1, 'big', False)
    "lambda e: '{}'.format(e.x)",  # ValueError: no signature found for builtin
    "lambda e: 'abc'.startswith(e.x)",  # ValueError: no signature found for builtin
    "lambda e: ' a '.strip()",  # ValueError: Invalid constant type NoneType (an inserted default)
    "lambda e: (1).real()",  # ValueError: not actually a function or method
    "lambda e: ('a' + 'b') if e.ok else 'c'",  # ValueError: str + str is typed int
    "lambda e: {'a': e.x} if e.ok else {'a': e.y}",  # ValueError: two dicts never compatible
):
    ds = ObjectStream(ast.Name("ds", ast.Load()))
    try:
        r = ds.Select(src)
    except Exception as e:  # noqa
        problems.append(f"Select({src!r}) refused: {type(e).__name__}: {str(e)[:90]}")
        continue
    if ast.dump(r.query_ast.args[1]) != ast.dump(ast.parse(src).body[0].value):
        problems.append(f"Select({src!r}) emitted {ast.unparse(r.query_ast.args[1])!r}")

if problems:
    print("C10 VIOLATED by the unchanged library:")
    for p in problems:
        print("  -", p)
    sys.exit(1)
print("OK")
