"""C17 on the UNCHANGED tree: a method-form operator call that passes an argument BY
KEYWORD (seq.Where(f=lambda ...), seq.Aggregate(0, f=lambda ...)) loses that argument:
the rewritten call is Op(seq, <positional args only>). So "changes nothing else" and
"evaluates to the same value" both fail. Exits non-zero on the clean tree.

Judges the property only through the return value of
change_extension_functions_to_calls: (a) no method-form operator call is left,
(b) the result equals the independent reference rewriting (nothing else changed),
(c) the result evaluates to the same value as the original on every dataset,
(d) applying the function again changes nothing.
Exit 0 + "OK" if the property holds for all probes, exit 1 otherwise.
"""
import ast
import sys

import func_adl
from func_adl.ast.func_adl_ast_utils import change_extension_functions_to_calls

OPS = [
    "Select", "SelectMany", "Where", "First", "ResultTTree", "ResultAwkwardArray",
    "ResultPandasDF", "Min", "Max", "Sum", "Aggregate", "Count",
]


# ---------------------------------------------------------------- evaluation model
class PlainSeq:
    """A sequence WITHOUT operator methods (only non-operator helpers)."""

    def __init__(self, items):
        self.items = list(items)

    def __eq__(self, other):
        return isinstance(other, PlainSeq) and self.items == other.items

    def __repr__(self):
        return f"Seq{self.items}"

    # non-operator methods, same shape as operators
    def Pad(self, to=0, fill=0):
        return type(self)(self.items + [fill] * max(0, to - len(self.items)))

    def Take(self, n):
        return type(self)(self.items[:n])


def _items(s):
    return s.items


def Select(s, f):
    return type(s)([f(i) for i in _items(s)])


def SelectMany(s, f):
    return type(s)([j for i in _items(s) for j in _items(f(i))])


def Where(s, f):
    return type(s)([i for i in _items(s) if f(i)])


def First(s):
    return _items(s)[0]


def Count(s):
    return len(_items(s))


def Sum(s):
    return sum(_items(s))


def Min(s):
    return min(_items(s))


def Max(s):
    return max(_items(s))


def Aggregate(s, init, f):
    acc = init
    for i in _items(s):
        acc = f(acc, i)
    return acc


class MethodSeq(PlainSeq):
    """The same sequence WITH the operators as methods."""

    def __eq__(self, other):
        return isinstance(other, PlainSeq) and self.items == other.items

    Select = Select
    SelectMany = SelectMany
    Where = Where
    First = First
    Count = Count
    Sum = Sum
    Min = Min
    Max = Max
    Aggregate = Aggregate


class Event:
    def __init__(self, kind, jets, muons):
        self.jets = kind(jets)
        self.muons = kind(muons)


def clip(x, lo=None, hi=None):
    if lo is not None and x < lo:
        return lo
    if hi is not None and x > hi:
        return hi
    return x


def combine(a, other=None, scale=1):
    return (a, other, scale)


ENV = dict(
    Select=Select, SelectMany=SelectMany, Where=Where, First=First, Count=Count, Sum=Sum,
    Min=Min, Max=Max, Aggregate=Aggregate, clip=clip, combine=combine,
)

DATASETS = [
    ([1, 2, 3, 4], [10, 20]),
    ([5], [7, 8, 9]),
    ([3, 3, 9, 1, 0], [2]),
    ([-4, 6, 2], [1, 1, 1, 1]),
]


def evaluate(tree, kind, data):
    code = compile(ast.fix_missing_locations(ast.Expression(body=tree)), "<query>", "eval")
    env = dict(ENV)
    env["e"] = Event(kind, *data)
    try:
        return ("value", eval(code, env))
    except Exception as ex:  # noqa
        return ("raised", f"{type(ex).__name__}: {ex}")


# ---------------------------------------------------------------- reference (the spec)
class Reference(ast.NodeTransformer):
    def visit_Call(self, node):
        node = self.generic_visit(node)
        if isinstance(node.func, ast.Attribute) and node.func.attr in OPS:
            return ast.Call(
                ast.Name(node.func.attr, ast.Load()), [node.func.value] + node.args, node.keywords
            )
        return node


def leftovers(tree):
    return [
        n.func.attr
        for n in ast.walk(tree)
        if isinstance(n, ast.Call) and isinstance(n.func, ast.Attribute) and n.func.attr in OPS
    ]


def body(src):
    return ast.parse(src, mode="eval").body


def check(src):
    problems = []
    result = change_extension_functions_to_calls(body(src))
    left = leftovers(result)
    if left:
        problems.append(f"method-form operator calls remain: {left}")
    expected = Reference().visit(body(src))
    if ast.dump(result) != ast.dump(expected):
        problems.append(
            "result differs from Op(seq, args...) rewriting:\n"
            f"      got      {ast.unparse(result)}\n"
            f"      expected {ast.unparse(expected)}"
        )
    for data in DATASETS:
        want = evaluate(body(src), MethodSeq, data)
        got = evaluate(result, PlainSeq, data)
        if want != got:
            problems.append(f"on dataset {data}: original -> {want}, rewritten -> {got}")
            break
    before = ast.dump(result)
    again = change_extension_functions_to_calls(result)
    if ast.dump(again) != before:
        problems.append(f"second application changed the result to {ast.unparse(again)}")
    return problems


PROBES = [
    "e.jets.Where(f=lambda j: j > 2).Count()",
    "e.jets.Aggregate(0, f=lambda acc, j: acc + j)",
    "e.jets.Select(lambda j: e.muons.Select(f=lambda m: m + j).Sum())",
]


def main():
    assert func_adl.__file__
    print("func_adl from", func_adl.__file__)
    bad = 0
    for src in PROBES:
        problems = check(src)
        if problems:
            bad += 1
            print("VIOLATION for query:", src)
            for p in problems:
                print("   -", p)
    if bad:
        print(f"FAILED: {bad} of {len(PROBES)} queries violate C17")
        return 1
    print("OK")
    return 0


if __name__ == "__main__":
    sys.exit(main())
