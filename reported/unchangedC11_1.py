"""C11 on the UNCHANGED library: handing the same `ast.Lambda` object (a documented form
of the function argument) to two derivations lets the second derivation rewrite the
query AST of the stream made by the first one. The type follower edits the lambda's
nodes in place, and the first stream's query shares them.
"""
import ast
import logging
import sys
from typing import Iterable

import func_adl
from func_adl import EventDataset

logging.disable(logging.CRITICAL)


class Jet:
    def pt(self) -> float: ...


class EvtA:
    def Jets(self, name: str = "a") -> Iterable[Jet]: ...


class EvtB:
    def Jets(self, name: str = "a", calibrated: bool = True) -> Iterable[Jet]: ...


class DS(EventDataset):
    async def execute_result_async(self, a, title=None):
        return ast.dump(a)


def main():
    lam = ast.parse("lambda e: e.Jets().Count()").body[0].value
    first = DS(EvtA).Select(lam)
    before = ast.dump(first.query_ast), first.item_type
    shown = ast.unparse(first.query_ast)

    DS(EvtB).Select(lam)  # a derivation on an unrelated dataset

    after = ast.dump(first.query_ast), first.item_type
    if before != after:
        print("PROPERTY C11 VIOLATED (unchanged library)")
        print(" - first stream was:", shown)
        print(" - first stream now:", ast.unparse(first.query_ast))
        return 1
    print("OK")
    return 0


if __name__ == "__main__":
    pass
    sys.exit(main())
