"""C17 on the UNCHANGED library: a lambda parameter spelled like an operator.

The rewrite turns  seq.Count()  into  Count(seq)  by attribute name alone.  In method form
the operator is looked up on the sequence; in function form `Count` is a free name, and inside
`lambda Count: ...` that name is the lambda's parameter, not the operator.  So the result
no longer evaluates to the same value as the original (here: it cannot be evaluated at all).
Exit 0 when original and result agree, 1 otherwise.
"""
import ast
import copy
import sys

from func_adl.ast.func_adl_ast_utils import change_extension_functions_to_calls


class Seq:
    def __init__(self, items):
        self.items = list(items)

    def Where(self, f):
        return Seq(i for i in self.items if f(i))

    def Select(self, f):
        return Seq(f(i) for i in self.items)

    def Count(self):
        return len(self.items)

    def Sum(self):
        return sum(self.items)


def environment():
    return {
        "Where": lambda s, f: Seq(i for i in s.items if f(i)),
        "Select": lambda s, f: Seq(f(i) for i in s.items),
        "Count": lambda s: len(s.items),
        "Sum": lambda s: sum(s.items),
        "jets": Seq([4, 9, 1, 7]),
        "events": Seq([Seq([1, 2]), Seq([3]), Seq([5, 8, 13])]),
    }


def evaluate(tree):
    expr = ast.Expression(copy.deepcopy(tree.body[0].value))
    ast.fix_missing_locations(expr)
    try:
        return eval(compile(expr, "<query>", "eval"), environment())
    except Exception as e:  # report, do not die
        return f"{type(e).__name__}: {e}"


QUERIES = [
    # threshold handed in under the name Count
    "(lambda Count: jets.Where(lambda j: j > Count).Count())(3)",
    # per-event lambda whose parameter is called Sum
    "events.Select(lambda Sum: Sum.Sum()).Sum()",
]

bad = 0
for q in QUERIES:
    original = ast.parse(q)
    got = change_extension_functions_to_calls(copy.deepcopy(original))
    v0, v1 = evaluate(original), evaluate(got)
    if v0 != v1:
        bad += 1
        print(f"{q}\n   rewritten to {ast.unparse(got)}\n   original evaluates to {v0!r}, result to {v1!r}")
if bad:
    print("C17 VIOLATED on the unchanged library")
    sys.exit(1)
print("OK")
