"""UNCHANGED library, C05: a helper's free name that can not be inlined or made a literal (a
builtin / C function such as len or math.sqrt) is left as a bare name in the helper's body.
When that body is put inside a lambda (the passed one, or another helper) one of whose
parameters has the same spelling, the parameter captures it: the "call by name" now calls
the parameter. Python calling the helper is not affected by the caller's parameter names.
"""
import ast
import inspect
import sys
from math import sqrt

from func_adl.util_ast import parse_as_ast


def run_inlined(fn, *args):
    lam = parse_as_ast(fn)
    # through the text, the way a backend receives it
    text = ast.unparse(lam)
    env = dict(fn.__globals__)
    env.update(inspect.getclosurevars(fn).nonlocals)
    return text, eval(text, env)(*args)


def size(a):
    return len(a)


def size_plus_one(len):
    return size(len) + 1


def norm(a):
    return sqrt(a * a)


failures = []


def check(label, fn, *args):
    want = fn(*args)
    text = "?"
    try:
        text, got = run_inlined(fn, *args)
    except Exception as e:  # noqa
        try:
            text = ast.unparse(parse_as_ast(fn))
        except Exception:
            pass
        failures.append(
            f"{label}: python gives {want!r}, inlined `{text}` fails: {type(e).__name__}: {e}"
        )
        return
    if got != want:
        failures.append(f"{label}: python gives {want!r}, inlined `{text}` gives {got!r}")


check("control size(e)", lambda e: size(e), [1, 2])
check("control norm(e)", lambda e: norm(e), -3.0)
# the passed lambda's parameter is spelled like the function the helper calls
check("norm(sqrt)", lambda sqrt: norm(sqrt), -3.0)
# the same between two helpers
check("size_plus_one(e)", lambda e: size_plus_one(e), [1, 2])

if failures:
    print("C05 violated by the unchanged library:")
    for f in failures:
        print("  " + f)
    sys.exit(1)
print("OK")
