"""C01, UNCHANGED library: the dataclass / NamedTuple sugar drops the fields that take their default.

`P(e.x)` with `class P(NamedTuple): a: float; b: float = 5.0` is P(a=e.x, b=5.0) in python, but the query
carries {'a': e.x}; reading the defaulted field in a later Select is refused (ValueError) when the query is built.
"""
import ast
import functools
import sys
from dataclasses import asdict, dataclass
from types import SimpleNamespace as NS
from typing import NamedTuple

import func_adl
from func_adl import EventDataset
from func_adl.ast import (
    aggregate_node_transformer,
    change_extension_functions_to_calls,
    simplify_chained_calls,
)


# ---------------------------------------------------------------- in-memory LINQ semantics
class Seq(list):
    def Select(self, f):
        return Seq(f(x) for x in self)

    def Where(self, f):
        return Seq(x for x in self if f(x))

    def SelectMany(self, f):
        return Seq(y for x in self for y in f(x))

    def First(self):
        return self[0]

    def Count(self):
        return len(self)


def _env(data):
    return {
        "EventDataset": lambda *a: data,
        "Select": lambda s, f: Seq(s).Select(f),
        "Where": lambda s, f: Seq(s).Where(f),
        "SelectMany": lambda s, f: Seq(s).SelectMany(f),
        "First": lambda s: Seq(s).First(),
        "Count": lambda s: Seq(s).Count(),
        "MetaData": lambda s, d: s,
        "Aggregate": lambda s, init, f: functools.reduce(f, list(s), init),
        "len": len,
        "abs": abs,
    }


def evaluate(a: ast.AST, data):
    "Read the query AST under ordinary list semantics"
    e = ast.Expression(body=a)
    ast.fix_missing_locations(e)
    return eval(compile(e, "<query>", "eval"), _env(data))


def plain(v):
    "Seq -> list, recursively, for comparison and printing"
    if isinstance(v, (list, tuple)):
        return type(v)(plain(x) for x in v) if isinstance(v, tuple) else [plain(x) for x in v]
    return v


class DS(EventDataset):
    def __init__(self):
        super().__init__()
        self.seen = None

    async def execute_result_async(self, a, title=None):
        self.seen = a
        return a


class P(NamedTuple):
    a: float
    b: float = 5.0


@dataclass
class D:
    a: float
    b: float = 5.0


DATA = Seq([NS(x=1.0), NS(x=2.5)])


def fields(v):
    if isinstance(v, dict):
        return dict(v)
    return v._asdict() if hasattr(v, "_asdict") else asdict(v)


def build_nt(ds):
    return ds.Select(
        lambda e: P(e.x)
    )


def build_dc(ds):
    return ds.Select(
        lambda e: D(e.x)
    )


def main() -> int:
    bad = 0

    # 1. the record itself
    for label, build, direct in [
        (
            "NamedTuple",
            build_nt,
            lambda data: data.Select(lambda e: P(e.x)),
        ),
        (
            "dataclass",
            build_dc,
            lambda data: data.Select(lambda e: D(e.x)),
        ),
    ]:
        ds = DS()
        build(ds).value()
        expected = [fields(v) for v in direct(DATA)]
        got = [fields(v) for v in evaluate(ds.seen, DATA)]
        if got != expected:
            bad += 1
            print(f"MISMATCH ({label}): query {ast.unparse(ds.seen)}")
            print(f"   python  : {expected}")
            print(f"   query is: {got}")

    # 2. reading the defaulted field further down the chain
    expected = plain(DATA.Select(lambda e: P(e.x)).Select(lambda p: p.b))
    try:
        ds = DS()
        ds.Select(
            lambda e: P(e.x)
        ).Select(
            lambda p: p.b
        ).value()
        print(f"(query was built: {ast.unparse(ds.seen)})")
    except Exception as e:  # noqa
        bad += 1
        print(f"MISMATCH: python computes {expected}, building the query raised {type(e).__name__}: {e}")

    if bad:
        print(f"FAILED: {bad} mismatches (func_adl from {func_adl.__file__})")
        return 1
    print("OK")
    return 0


if __name__ == "__main__":
    sys.exit(main())
