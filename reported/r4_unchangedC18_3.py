"""Unchanged library, C18 (only if comprehensions that reach the simplifier count as supported
forms: list comprehensions and generators are turned into Select calls by the front end, set and
dict comprehensions are not): a comprehension variable that has the name of the lambda parameter
being substituted is replaced as well, also where it is bound (Store context), which gives an
AST that can not be compiled. The walrus target has the same problem.
"""
import ast
import sys

from func_adl.ast.function_simplifier import simplify_chained_calls

bad = []
for src in [
    "(lambda j: {j.pt for j in j.jets})(e.x)",
    "(lambda j: {j.pt: j for j in j.jets})(e.x)",
    "(lambda y: f((y := 1), y))(e.x)",
]:
    tree = ast.parse(src, mode="eval")
    try:
        result = simplify_chained_calls().visit(tree)
        text = ast.unparse(result)
        compile(ast.fix_missing_locations(result), "<q>", "eval")
    except Exception as e:
        bad.append(f"`{src}`: {type(e).__name__}: {e}")
if bad:
    print("C18 violated:")
    for b in bad:
        print("  -", b)
    sys.exit(1)
print("OK")
