"""C04 on the UNCHANGED library: captured values that can not be written as a literal get
through the gate when their type derives from a legal one (IntEnum member, str subclass with
its own repr) or is a module: no ValueError, and the query text is not python any more."""
import ast
import enum
import math
import sys

from func_adl import ObjectStream


class Color(enum.IntEnum):
    red = 1


class Tag(str):
    def __repr__(self):
        return f"<Tag {str(self)}>"


c = Color.red
tag = Tag("loose")
ds = ObjectStream[object](ast.Name("ds", ast.Load()))

problems = []


def judge(label, build):
    try:
        s = build()
    except ValueError:
        return  # refused, as the property says
    text = ast.unparse(s.query_ast.args[1])
    try:
        ast.parse(text)
    except SyntaxError:
        problems.append(f"{label}: accepted, query is malformed: {text}")


def q_enum():
    return ds.Select(lambda x: x.color == c)


def q_str():
    return ds.Select(lambda x: x.quality == tag)


def q_module():
    return ds.Select(lambda x: x.calc(math))


judge("IntEnum member", q_enum)
judge("str subclass", q_str)
judge("module object", q_module)

if problems:
    print("C04 VIOLATED (unchanged library)")
    for p in problems:
        print("  " + p)
    sys.exit(1)
print("OK")
