"""UNCHANGED library violates C06: a well-formed dataclass constructor call with keyword
arguments raises ValueError("Too many arguments ...") when the call is the argument of an inlined
helper that mentions its parameter more than once.

The simplifier substitutes the *same* ast.Call object at every use of the parameter, and
syntatic_sugar.convert_call_to_dict appends the keyword values to `a.args` in place
(`arg_values = a.args`), so the second visit of the shared node sees 2 positional + 2 keyword
arguments.
"""

import ast
import sys
from dataclasses import dataclass

from func_adl import ObjectStream


@dataclass
class dc:
    x: int
    y: int


def total(d):
    return d.x + d.y


ds = ObjectStream(ast.Name(id="ds", ctx=ast.Load()))


def main():
    # control: positional arguments work
    s0 = ds.Select(lambda e: total(dc(e.a, e.b)))
    print("positional:", ast.unparse(s0.query_ast))
    try:
        s1 = ds.Select(lambda e: total(dc(x=e.a, y=e.b)))
    except ValueError as ex:
        print("FAIL: legal call dc(x=e.a, y=e.b) refused:", ex)
        return 1
    print("keyword   :", ast.unparse(s1.query_ast))
    print("OK")
    return 0


if __name__ == "__main__":
    sys.exit(main())
