"""Unchanged library, C18: a query operator whose sequence is handed over unpacked,
`Select(*pair_of_one, lambda e: e)` / `Where(*x, lambda e: True)` (legal python when the
unpacked thing has one element), is taken for the `Op(seq, lambda)` shape. The identity
Select / always-true Where is then dropped and the bare node `*x` is returned in its place:
it unparses but does not compile ("can't use starred expression here").
(Lower realism than unchangedC18_1: nobody writes a query source as `*x`.)
"""
import ast
import sys

from func_adl.ast.function_simplifier import simplify_chained_calls

bad = []
for src in ["Select(*x, lambda e: e)", "Where(*x, lambda e: True)", "(Select(*x, lambda e: e), 1)[0]"]:
    tree = ast.parse(src, mode="eval")
    try:
        result = simplify_chained_calls().visit(tree)
        text = ast.unparse(result)
        compile(ast.fix_missing_locations(result), "<q>", "eval")
    except Exception as e:
        bad.append(f"`{src}`: {type(e).__name__}: {e}")
if bad:
    print("C18 violated:")
    for b in bad:
        print("  -", b)
    sys.exit(1)
print("OK")
