"""UNCHANGED library vs C18: a tuple/list literal with a starred element, indexed by a constant.
(*xs, y)[0] is simplified to the bare node `*xs`, which is not a valid expression (cannot be
compiled); (*xs, y)[1] is simplified to `y`, which is wrong as soon as xs is not empty."""
import ast
import sys

from func_adl.ast.function_simplifier import FuncADLIndexError, simplify_chained_calls

ENV = {"xs": [10, 20], "y": 30}
problems = []
for src in ["(*xs, y)[0]", "[*xs, y][0]", "(*xs, y)[1]", "(y, *xs)[1]", "(lambda t: t[0])((*xs, y))"]:
    expected = eval(src, dict(ENV))
    try:
        r = simplify_chained_calls().visit(ast.parse(src, mode="eval"))
    except FuncADLIndexError as e:
        problems.append(f"{src}: python gives {expected}, simplifier raised FuncADLIndexError({e})")
        continue
    except BaseException as e:
        problems.append(f"{src}: simplifier crashed {type(e).__name__}: {e}")
        continue
    text = ast.unparse(ast.fix_missing_locations(r))
    try:
        got = eval(compile(text, "<simplified>", "eval"), dict(ENV))
    except SyntaxError as e:
        problems.append(f"{src} -> {text!r}: not compilable: {e}")
        continue
    if got != expected:
        problems.append(f"{src} -> {text!r}: python gives {expected}, simplified gives {got}")

if problems:
    print("C18 VIOLATED on the unchanged tree:")
    for p in problems:
        print("  ", p)
    sys.exit(1)
print("OK")
