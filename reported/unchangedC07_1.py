"""UNCHANGED library vs C07: the receiver of a method is recognised by the NAME 'self' only.
A class whose methods call the receiver something else (legal python: 'this', '_', ...) has every
call refused with "Argument this is required" although all declared parameters are given/defaulted.
Exit 0 + OK if the property holds, 1 otherwise."""
import ast
import logging
import sys
from typing import Iterable

from func_adl import ObjectStream

logging.disable(logging.CRITICAL)


class Jet:
    def pt(this, scale: float = 1.0, shift: float = 0.0) -> float: ...  # noqa


class Event:
    def Jets(self, bank: str = "default") -> Iterable[Jet]: ...  # noqa


ds = ObjectStream[Event](ast.Name(id="ds", ctx=ast.Load()), Event)
try:
    q = ds.Select("lambda e: e.Jets().Select(lambda j: j.pt(shift=2.0))")
except ValueError as e:
    print("C07 VIOLATED: j.pt(shift=2.0) gives every parameter of Jet.pt, yet:", e)
    sys.exit(1)
got = ast.unparse(q.query_ast)
if "j.pt(1.0, 2.0)" not in got:
    print("C07 VIOLATED:", got)
    sys.exit(1)
print("OK")
