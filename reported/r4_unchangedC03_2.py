"""C03 on the UNCHANGED library: a one-line function under a decorator that uses functools.wraps.

What is passed is the wrapper the decorator returned. `inspect.getsource` follows `__wrapped__`,
so the text that is turned into a lambda is that of the undecorated function: the decorator's
effect is dropped without an error.

Expected: the recorded lambda behaves like the callable passed, or recovery raises.
"""

import ast
import functools
import sys

import func_adl
from func_adl import ObjectStream
from func_adl.util_ast import parse_as_ast


def in_gev(fn):
    @functools.wraps(fn)
    def scaled(x):
        return fn(x) / 1000.0

    return scaled


@in_gev
def pt_of(x):
    return x + 500


def outcome(fn, x):
    try:
        return ("value", fn(x))
    except Exception as e:  # noqa
        return ("error", type(e).__name__)


problems = []

try:
    rec = parse_as_ast(pt_of, "Select")
except (ValueError, SyntaxError):
    rec = None
if rec is not None:
    got, want = outcome(eval(ast.unparse(rec), {}), 1500), outcome(pt_of, 1500)
    if got != want:
        problems.append(
            f"parse_as_ast(pt_of) recorded `{ast.unparse(rec)}`: {got}, pt_of gives {want}"
        )

try:
    stream = ObjectStream(ast.Name(id="ds", ctx=ast.Load())).Select(pt_of)
except (ValueError, SyntaxError):
    stream = None
if stream is not None:
    rec = stream.query_ast.args[1]  # type: ignore
    got, want = outcome(eval(ast.unparse(rec), {}), 1500), outcome(pt_of, 1500)
    if got != want:
        problems.append(f"Select(pt_of) recorded `{ast.unparse(rec)}`: {got}, pt_of gives {want}")

if problems:
    print(f"C03 VIOLATED on the unchanged library (func_adl from {func_adl.__file__})")
    for p in problems:
        print(" -", p)
    sys.exit(1)
print("OK")
