"""C03 on the UNCHANGED library: a lambda bound to a name by an assignment statement.

The text of a lambda is taken to run up to the next `,` or `)` outside brackets. A lambda that
ends its statement (`sq = lambda x: x * x`) has neither, so the scan runs on into the following
lines. Usually the result does not parse and recovery fails loudly (or, for a helper, the call is
left alone). If the next line starts with a bracket and later has a comma, the text does parse -
as a different lambda: `lambda x: x * x(lo, hi)`. The position check accepts it, because the real
lambda lies inside that text.

Expected: the recorded lambda behaves like the callable passed, or recovery raises.
"""

import ast
import sys

import func_adl
from func_adl import ObjectStream
from func_adl.util_ast import parse_as_ast

sq = lambda x: x * x  # noqa: E731
(lo, hi), n_bins = (0, 10), 3


class Event:
    a = 7


def outcome(fn, x):
    try:
        return ("value", fn(x))
    except Exception as e:  # noqa
        return ("error", type(e).__name__)


problems = []

# the lambda itself
try:
    rec = parse_as_ast(sq)
except (ValueError, SyntaxError):
    rec = None
if rec is not None:
    got, want = outcome(eval(ast.unparse(rec), {}), 7), outcome(sq, 7)
    if got != want:
        problems.append(f"parse_as_ast(sq) recorded `{ast.unparse(rec)}`: {got}, sq gives {want}")

# used as a helper in the lambda handed to Select
try:
    stream = ObjectStream(ast.Name(id="ds", ctx=ast.Load())).Select(lambda e: sq(e.a))
except (ValueError, SyntaxError):
    stream = None
if stream is not None:
    rec = stream.query_ast.args[1]  # type: ignore
    got = outcome(eval(ast.unparse(rec), {"sq": sq}), Event())
    want = outcome(lambda e: sq(e.a), Event())
    if got != want:
        problems.append(
            f"Select(lambda e: sq(e.a)) recorded `{ast.unparse(rec)}`: {got}, passed gives {want}"
        )

if problems:
    print(f"C03 VIOLATED on the unchanged library (func_adl from {func_adl.__file__})")
    for p in problems:
        print(" -", p)
    sys.exit(1)
print("OK")
