"""Unchanged library, C18: the simplifier crashes with a plain IndexError (not its dedicated
FuncADLIndexError, and no literal is indexed out of range) when the inner of two chained
SelectMany calls takes its element through `*args` - a lambda form the simplifier otherwise
handles (it leaves `(lambda *a: ...)(x)` calls alone and keeps the name of `*a`).
The Select/Select, Where/Select, Where/SelectMany and Select/SelectMany pairs cope with it.
"""
import ast
import sys

from func_adl.ast.function_simplifier import simplify_chained_calls


def SelectMany(seq, f):
    return [y for x in seq for y in f(x)]


src = "SelectMany(SelectMany(seq, lambda *a: a[0].jets), lambda j: j.tracks)"
tree = ast.parse(src, mode="eval")
try:
    result = simplify_chained_calls().visit(tree)
    compile(ast.fix_missing_locations(result), "<q>", "eval")
except Exception as e:
    print(f"C18 violated: simplifying `{src}` failed with {type(e).__name__}: {e}")
    sys.exit(1)
print("OK", ast.unparse(result))
