"""C12 on the UNCHANGED library (borderline): the executor is to get the stream's query from
which ONLY empty MetaData wrappers - MetaData(<source>, {}) - were removed.

The clean-up applied by value() looks at the callee name, the number of positional arguments and
the second argument only. A call of that name inside a lambda that is NOT such a wrapper is
taken out too:
  * MetaData(x, {}, strict=True)  - the keyword argument disappears with the call;
  * MetaData(*e.parts, {})        - args[0] is a Starred: the lambda body that is delivered,
                                    `lambda e: *e.parts`, is not even an expression.
"""

import ast
import logging
import sys

from func_adl import EventDataset

logging.disable(logging.CRITICAL)


class DS(EventDataset):
    def __init__(self):
        super().__init__()
        self.calls = []

    async def execute_result_async(self, a, title=None):
        self.calls.append((a, title))
        return a


problems = []
for lam in ["lambda e: MetaData(e.jets(), {}, strict=True)", "lambda e: MetaData(*e.parts, {})"]:
    ds = DS()
    q = ds.Select(lam)
    built = ast.unparse(q.query_ast)
    got = ast.unparse(q.value())
    if len(ds.calls) != 1:
        problems.append(f"{lam}: {len(ds.calls)} calls")
    if got != built:
        msg = f"query {built!r} has no empty MetaData wrapper, yet the executor got {got!r}"
        try:
            ast.parse(got)
        except SyntaxError:
            msg += " (which is not valid python)"
        problems.append(msg)

if problems:
    print("C12 VIOLATED on the unchanged library:")
    for p in problems:
        print("  -", p)
    sys.exit(1)
print("OK")
