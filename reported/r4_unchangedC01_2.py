"""C01, UNCHANGED library: the aggregate shortcuts for Min / Max start the fold at 0.

aggregate_node_transformer turns Max(seq) into Aggregate(seq, 0, lambda acc, v: acc if acc > v else v) (Min alike):
the maximum of all-negative values and the minimum of all-positive values come out as 0.
(Min/Max are not among the operators the property's quantifier lists for lambda bodies, but the pass is one of the
three the property names.)
"""
import ast
import functools
import sys
from types import SimpleNamespace as NS

import func_adl
from func_adl import EventDataset
from func_adl.ast import (
    aggregate_node_transformer,
    change_extension_functions_to_calls,
    simplify_chained_calls,
)


# ---------------------------------------------------------------- in-memory LINQ semantics
class Seq(list):
    def Select(self, f):
        return Seq(f(x) for x in self)

    def Where(self, f):
        return Seq(x for x in self if f(x))

    def SelectMany(self, f):
        return Seq(y for x in self for y in f(x))

    def First(self):
        return self[0]

    def Count(self):
        return len(self)


def _env(data):
    return {
        "EventDataset": lambda *a: data,
        "Select": lambda s, f: Seq(s).Select(f),
        "Where": lambda s, f: Seq(s).Where(f),
        "SelectMany": lambda s, f: Seq(s).SelectMany(f),
        "First": lambda s: Seq(s).First(),
        "Count": lambda s: Seq(s).Count(),
        "MetaData": lambda s, d: s,
        "Aggregate": lambda s, init, f: functools.reduce(f, list(s), init),
        "len": len,
        "abs": abs,
    }


def evaluate(a: ast.AST, data):
    "Read the query AST under ordinary list semantics"
    e = ast.Expression(body=a)
    ast.fix_missing_locations(e)
    return eval(compile(e, "<query>", "eval"), _env(data))


def plain(v):
    "Seq -> list, recursively, for comparison and printing"
    if isinstance(v, (list, tuple)):
        return type(v)(plain(x) for x in v) if isinstance(v, tuple) else [plain(x) for x in v]
    return v


class DS(EventDataset):
    def __init__(self):
        super().__init__()
        self.seen = None

    async def execute_result_async(self, a, title=None):
        self.seen = a
        return a


Seq.Max = lambda self: max(self)  # type: ignore
Seq.Min = lambda self: min(self)  # type: ignore

DATA = Seq([NS(vals=Seq([3.0, 4.0])), NS(vals=Seq([-3.0, -4.0])), NS(vals=Seq([-1.0, 2.0]))])


def build_max(ds):
    return ds.Select(
        lambda e: e.vals.Max()
    )


def build_min(ds):
    return ds.Select(
        lambda e: e.vals.Min()
    )


def main() -> int:
    bad = 0
    for label, build, direct in [
        (
            "Max",
            build_max,
            lambda data: data.Select(lambda e: e.vals.Max()),
        ),
        (
            "Min",
            build_min,
            lambda data: data.Select(lambda e: e.vals.Min()),
        ),
    ]:
        ds = DS()
        build(ds).value()
        expected = plain(direct(DATA))
        a = ds.seen
        got0 = plain(evaluate(a, DATA))
        if got0 != expected:
            bad += 1
            print(f"MISMATCH ({label}) as handed to the executor: {got0} instead of {expected}")
        a = aggregate_node_transformer().visit(change_extension_functions_to_calls(a))
        got = plain(evaluate(a, DATA))
        if got != expected:
            bad += 1
            print(f"MISMATCH ({label}) after the aggregate shortcut: {ast.unparse(a)}")
            print(f"   python  : {expected}")
            print(f"   query is: {got}")
    if bad:
        print(f"FAILED: {bad} mismatches (func_adl from {func_adl.__file__})")
        return 1
    print("OK")
    return 0


if __name__ == "__main__":
    sys.exit(main())
