"""UNCHANGED library, C06: a lambda in the element of a LIST comprehension. In python all the
lambdas share the one loop variable of the comprehension (late binding: they all see its last
value); after lowering each call of the Select lambda has its own variable.
"""
import ast
import sys

from func_adl.ast.syntatic_sugar import resolve_syntatic_sugar
from func_adl.util_ast import parse_as_ast


class Seq(list):
    def Select(self, f):
        return Seq(f(x) for x in self)

    def Where(self, f):
        return Seq(x for x in self if f(x))


def case(f):
    return f


DATA = [1, 2, 3]
f = case(lambda e: [g() for g in [(lambda: x) for x in e if x > 0]])
expected = list(f(DATA))
lowered = ast.unparse(resolve_syntatic_sugar(parse_as_ast(f, "case")))
got = list(eval(lowered, {})(Seq(DATA)))
if got != expected:
    print(f"python gives {expected}\nlowered to {lowered}\nwhich gives {got}")
    sys.exit(1)
print("OK")
