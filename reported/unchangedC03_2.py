"""UNCHANGED library, C03: an inline lambda that sits inside another python-executed lambda with
the same parameter name, after the same method name, is recorded as the ENCLOSING lambda.

The scan only ever sees the outer lambda (the inner one is part of its text); caller name and
argument names match, and the position check passes because the inner lambda's code lies inside
the outer lambda's text."""

import ast
import sys

from func_adl import ObjectStream


class Holder:
    "A user helper that also calls its method Select, and runs the function at once"

    def __init__(self, stream):
        self.stream = stream

    def Select(self, fn):
        return fn(self.stream)


def main():
    ds = ObjectStream[int](ast.Name(id="ds", ctx=ast.Load()))
    try:
        r = Holder(ds).Select(lambda e: e.Select(lambda e: e.pt))
    except Exception as e:
        print("raised (allowed):", type(e).__name__, e)
        print("OK")
        return 0
    recorded = r.query_ast.args[1]
    text = ast.unparse(recorded)
    print("ObjectStream.Select was passed `lambda e: e.pt`; recorded:", text)
    if text != "lambda e: e.pt":
        print("PROPERTY VIOLATED (unchanged library): a different lambda was recorded")
        return 1
    print("OK")
    return 0


if __name__ == "__main__":
    sys.exit(main())
