"""C09 on the UNCHANGED library: the call-site rewrite returned by a *function processor*
(func_adl_callable) is lost when the call site is the whole body of a nested lambda.
At depth 0 the emitted query contains the rewritten call; one level down it keeps the
original one (process_function_call never marks the node it got back with _old_ast, so
fixup_ast_from_modifications has nothing to carry into the enclosing lambda).
Exits non-zero when the violation is observed.
"""
import ast
import sys
from typing import Iterable

from func_adl import EventDataset
from func_adl.type_based_replacement import func_adl_callable

log = []


def proc(s, a: ast.Call):
    log.append(ast.unparse(a))
    new_call = ast.Call(func=ast.Name(id="cpp_sqrt", ctx=ast.Load()), args=list(a.args), keywords=[])
    return s.MetaData({"f": "cpp_sqrt"}), new_call


@func_adl_callable(proc)
def MySqrt(x: float) -> float: ...  # noqa


class Jet:
    def pt(self) -> float: ...  # noqa


class Evt:
    def Jets(self) -> Iterable[Jet]: ...  # noqa

    def met(self) -> float: ...  # noqa


class DS(EventDataset[Evt]):
    def __init__(self):
        super().__init__(Evt)

    async def execute_result_async(self, a, title=None):
        return a


def names_called(a):
    return [n.func.id for n in ast.walk(a) if isinstance(n, ast.Call) and isinstance(n.func, ast.Name)]


bad = []
for label, q in [
    ("depth 0", "lambda e: MySqrt(e.met())"),
    ("depth 1, in an expression", "lambda e: e.Jets().Select(lambda j: MySqrt(j.pt()) + 1)"),
    ("depth 1, whole lambda body", "lambda e: e.Jets().Select(lambda j: MySqrt(j.pt()))"),
]:
    log.clear()
    r = DS().Select(q).query_ast
    called = names_called(r.args[1])
    if len(log) != 1 or "MySqrt" in called or "cpp_sqrt" not in called:
        bad.append(f"{label}: processor calls={log}; emitted: {ast.unparse(r)}")

if bad:
    print("C09 VIOLATED on the unchanged library (function processor rewrite lost):")
    for b in bad:
        print(" -", b)
    sys.exit(1)
print("OK")
