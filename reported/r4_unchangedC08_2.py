"""Unchanged library, C08 (borderline): arithmetic on booleans. Unary minus of a bool is typed
bool (python: -True == -1, an int), so a negated flag passes as a Where filter; binary arithmetic
on the same operand gives int as it should."""
import ast
import sys

from func_adl import ObjectStream


class Jet:
    def is_good(self) -> bool: ...

    def ntracks(self) -> int: ...


problems = []


def jets():
    return ObjectStream[Jet](ast.Name(id="ds"), Jet)


t = jets().Select(lambda j: 0 - j.is_good()).item_type
if t != int:
    problems.append(f"0 - bool: got {t!r}, expected int")
t = jets().Select(lambda j: -j.is_good()).item_type
if t != int:
    problems.append(f"-bool: got {t!r}, expected int")
try:
    jets().Where(lambda j: -j.is_good())
    problems.append("Where(lambda j: -j.is_good()) accepted an int-valued filter")
except ValueError:
    pass

if problems:
    print("C08 VIOLATED on the unchanged library")
    for p in problems:
        print("  " + p)
    sys.exit(1)
print("OK")
