"""Unchanged library vs C13: "every constant inside an emitted lambda has a transportable scalar
type, anything else being refused with ValueError". A captured python module passes the gate
(ModuleType is in g_legal_capture_types) and is emitted as ast.Constant(value=<module>).
"""
import ast
import math
import sys
from typing import Optional

import func_adl
from func_adl import EventDataset

SCALARS = (str, int, float, bool, bytes, complex, type(None))


class untyped(EventDataset):
    async def execute_result_async(self, a: ast.AST, title: Optional[str] = None):
        return a


def build():
    return untyped().Select(lambda e: e.calibrate(math))


try:
    q = build().query_ast
except ValueError:
    print("OK (refused)")
    sys.exit(0)

bad = [
    n
    for lam in ast.walk(q)
    if isinstance(lam, ast.Lambda)
    for n in ast.walk(lam)
    if isinstance(n, ast.Constant) and not isinstance(n.value, SCALARS)
]
if bad:
    print(f"C13 VIOLATED on the unchanged library ({func_adl.__file__}):")
    print(f"  constant of type {type(bad[0].value).__name__} in {ast.unparse(q)[:160]}")
    sys.exit(1)
print("OK")
