"""C04 on the UNCHANGED library: a name bound inside the lambda by an assignment expression
is replaced by a captured global of the same name - including the assignment target, which
gives a query that is not even valid python (`(99 := e.x) + 99`) instead of a ValueError."""
import ast
import sys

from func_adl import ObjectStream

n = 99
ds = ObjectStream[object](ast.Name("ds", ast.Load()))

try:
    s = ds.Select(lambda e: (n := e.x) + n)
except ValueError:
    print("OK (refused)")
    sys.exit(0)

lam = s.query_ast.args[1]
text = ast.unparse(lam)
bad = [
    node
    for node in ast.walk(lam)
    if isinstance(node, ast.NamedExpr) and not isinstance(node.target, ast.Name)
]
replaced = any(isinstance(c, ast.Constant) and c.value == 99 for c in ast.walk(lam))
try:
    ast.parse(text)
    parses = True
except SyntaxError:
    parses = False

if bad or replaced or not parses:
    print("C04 VIOLATED (unchanged library)")
    print(f"  name bound inside the lambda was replaced, query is malformed: {text}")
    sys.exit(1)
print("OK")
