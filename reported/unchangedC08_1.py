"""UNCHANGED library violates C08: class type variables are substituted by POSITION of the
subclass's arguments into the base's parameters (util_types.get_inherited zips
`base.__parameters__` with the subclass's args), so a generic subclass that re-orders its type
variables, or an Iterable subclass with an extra, unrelated leading type parameter, yields the
wrong declared type."""
import ast
import logging
import sys
from typing import Generic, Iterable, TypeVar

from func_adl import ObjectStream

logging.disable(logging.CRITICAL)

K = TypeVar("K")
V = TypeVar("V")


class Base(Generic[K, V]):
    def key(self) -> K: ...

    def val(self) -> V: ...


class Swapped(Base[V, K], Generic[K, V]):  # Swapped[int, str] is a Base[str, int]
    pass


class Coll(Iterable[V], Generic[K, V]):  # Coll[int, float] iterates over float
    pass


class Event:
    def swapped(self) -> Swapped[int, str]: ...

    def coll(self) -> Coll[int, float]: ...


s = ObjectStream[Event](ast.Name(id="ds", ctx=ast.Load()), Event)
problems = []
for what, got, expected in [
    ("Swapped[int,str].key()", s.Select(lambda e: e.swapped().key()).item_type, str),
    ("Swapped[int,str].val()", s.Select(lambda e: e.swapped().val()).item_type, int),
    ("SelectMany over Coll[int,float]", s.SelectMany(lambda e: e.coll()).item_type, float),
    ("Coll[int,float].First()", s.Select(lambda e: e.coll().First()).item_type, float),
    ("Coll[int,float][0]", s.Select(lambda e: e.coll()[0]).item_type, float),
]:
    if got != expected:
        problems.append(f"{what}: got {got!r}, annotations imply {expected!r}")

if problems:
    print("C08 VIOLATED (unchanged library)")
    for p in problems:
        print("  " + p)
    sys.exit(1)
print("OK")
