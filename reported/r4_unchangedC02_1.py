"""C02 on the UNCHANGED library: a comprehension variable is a binder the simplifier does not
know about. A called lambda's argument that mentions the outer `j` is substituted into a
comprehension that re-binds `j`, and is captured by it. (Comprehensions are normally turned
into Select calls by resolve_syntatic_sugar before simplification, so this needs a raw
comprehension to reach simplify_chained_calls.) The result is judged via its source text, so
the Load/Store context of the rewritten comprehension target plays no role.
"""
import ast
import sys
from types import SimpleNamespace as NS

from func_adl.ast.function_simplifier import simplify_chained_calls


def Select(s, f):
    return [f(x) for x in s]


ds = [NS(jets=[NS(pt=10 * k + j) for j in (1, 2)], v=k) for k in (1, 2)]
SRC = "Select(ds, lambda j: (lambda a: [a + j.pt for j in j.jets])(j.v))"


def evaluate(src):
    return eval(src, dict(Select=Select, ds=ds))


want = evaluate(SRC)
new = ast.unparse(simplify_chained_calls().visit(ast.parse(SRC, mode="eval").body))
try:
    got = evaluate(new)
except Exception as ex:
    got = ex
if isinstance(got, Exception) or got != want:
    print("MISMATCH for", SRC)
    print("   simplified:", new)
    print("   original value  :", want)
    print("   simplified value:", repr(got))
    sys.exit(1)
print("OK")
