"""UNCHANGED library, C06: a name bound with `:=` in an `if` clause of a comprehension is
visible in the element expression (python binds it in the enclosing function). The lowering
puts the condition and the element into two different lambdas, so the element's name dangles.
"""
import ast
import sys

from func_adl.ast.syntatic_sugar import resolve_syntatic_sugar
from func_adl.util_ast import parse_as_ast


class Seq(list):
    def Select(self, f):
        return Seq(f(x) for x in self)

    def Where(self, f):
        return Seq(x for x in self if f(x))


def case(f):
    return f


DATA = [1, 2, 3, 4, 5]
f = case(lambda e: [y for x in e if (y := x * 10) > 20])
expected = list(f(DATA))
lowered = ast.unparse(resolve_syntatic_sugar(parse_as_ast(f, "case")))
try:
    got = list(eval(lowered, {})(Seq(DATA)))
except Exception as e:
    got = f"{type(e).__name__}: {e}"
if got != expected:
    print(f"python gives {expected}\nlowered to {lowered}\nwhich gives {got}")
    sys.exit(1)
print("OK")
