"""C09 on the UNCHANGED library: a class registered with a callback whose method takes a
lambda. JetVec is an Iterable subclass with a class-level callback that declares Last() and
Where(...). For e.Jets().Last() the class callback fires; for e.Jets().Where(lambda ...) - a
method of the same registered class - it does not: the lambda has to be type-followed, that is
done through the ObjectStreamInternalMethods candidate, and process_method_call takes the
callbacks from the last candidate only. Exits non-zero when the violation is observed.
"""
import ast
import sys
from typing import Callable, Iterable, TypeVar

from func_adl import EventDataset
from func_adl.type_based_replacement import func_adl_callback

T = TypeVar("T")
log = []


def vec_cb(s, a: ast.Call):
    log.append(a.func.attr)  # type: ignore
    return s.MetaData({"vec": a.func.attr}), a  # type: ignore


class Jet:
    def pt(self) -> float: ...  # noqa


@func_adl_callback(vec_cb)
class JetVec(Iterable[T]):
    def Last(self) -> T: ...  # noqa

    def Where(self, test: Callable[[T], bool]) -> Iterable[T]: ...  # noqa


class Evt:
    def Jets(self) -> JetVec[Jet]: ...  # noqa


class DS(EventDataset[Evt]):
    def __init__(self):
        super().__init__(Evt)

    async def execute_result_async(self, a, title=None):
        return a


bad = []
for q, method in [
    ("lambda e: e.Jets().Last().pt()", "Last"),
    ("lambda e: e.Jets().Where(lambda j: j.pt() > 1).Count()", "Where"),
]:
    log.clear()
    r = DS().Select(q).query_ast
    if log != [method] or ("'vec': '%s'" % method) not in ast.unparse(r.args[0]):
        bad.append(f"JetVec.{method}: class callback calls={log}; emitted: {ast.unparse(r)}")

if bad:
    print("C09 VIOLATED on the unchanged library (class callback skipped for lambda-taking method):")
    for b in bad:
        print(" -", b)
    sys.exit(1)
print("OK")
