"""Unchanged library vs C13: None is one of the values the property says can be embedded (declared
default values, captured variables), but inside a lambda it is refused by the constant type gate.
A method that declares `= None` for an argument can therefore not be called without it.
Exits non-zero when None does not arrive in the emitted AST as a literal None.
"""
import ast
import sys
from typing import Iterable, Optional

import func_adl
from func_adl import EventDataset


class Jet:
    def pt(self, calibration: Optional[str] = None) -> float: ...  # noqa


class Event:
    def Jets(self) -> Iterable[Jet]: ...  # noqa


class typed(EventDataset[Event]):
    def __init__(self):
        super().__init__(Event)

    async def execute_result_async(self, a: ast.AST, title: Optional[str] = None):
        return a


class untyped(EventDataset):
    async def execute_result_async(self, a: ast.AST, title: Optional[str] = None):
        return a


def with_default():
    return typed().SelectMany(lambda e: e.Jets()).Select(lambda j: j.pt())


def with_capture(v):
    return untyped().Select(lambda e: e.jets(v))


failures = []
for label, build in [("declared default None", with_default), ("captured None", lambda: with_capture(None))]:
    try:
        q = build().query_ast
    except ValueError as e:
        failures.append(f"{label}: refused - {e}")
        continue
    lam = q.args[1]  # type: ignore
    if not any(isinstance(n, ast.Constant) and n.value is None for n in ast.walk(lam)):
        failures.append(f"{label}: no None literal in {ast.unparse(q)}")

if failures:
    print(f"C13 VIOLATED on the unchanged library ({func_adl.__file__}):")
    for f in failures:
        print("  " + f)
    sys.exit(1)
print("OK")
