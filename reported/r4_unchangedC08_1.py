"""Unchanged library, C08: a custom Iterable subclass (or a subclass of a generic class) whose
FIRST base is an ordinary helper/mixin class is not followed: get_inherited only ever looks at
__orig_bases__[0], so the element type / the substituted return type degrade to Any."""
import ast
import sys
from typing import Iterable, TypeVar

from func_adl import ObjectStream

T = TypeVar("T")


class Jet:
    def pt(self) -> float: ...


class Helper:
    def helper(self) -> int: ...


class Coll(Iterable[T]):
    def best(self) -> T: ...


class JetsA(Iterable[Jet], Helper):  # Iterable first: followed
    pass


class JetsB(Helper, Iterable[Jet]):  # mixin first: same model, not followed
    pass


class JetsC(Helper, Coll[Jet]):  # mixin first, generic base with a method returning T
    pass


class Event:
    def a(self) -> JetsA: ...

    def b(self) -> JetsB: ...

    def c(self) -> JetsC: ...


problems = []


def expect(what, got, want):
    if got != want:
        problems.append(f"{what}: got {got!r}, expected {want!r}")


def ds():
    return ObjectStream[Event](ast.Name(id="ds"), Event)


expect("JetsA subscript", ds().Select(lambda e: e.a()[0]).item_type, Jet)
expect("JetsA First", ds().Select(lambda e: e.a().First()).item_type, Jet)
expect("JetsA SelectMany", ds().SelectMany(lambda e: e.a()).item_type, Jet)

expect("JetsB subscript", ds().Select(lambda e: e.b()[0]).item_type, Jet)
expect("JetsB First", ds().Select(lambda e: e.b().First()).item_type, Jet)
expect("JetsB SelectMany", ds().SelectMany(lambda e: e.b()).item_type, Jet)
expect("JetsB Count", ds().Select(lambda e: e.b().Count()).item_type, int)
expect("JetsB helper()", ds().Select(lambda e: e.b().helper()).item_type, int)

expect("JetsC best() -> T=Jet", ds().Select(lambda e: e.c().best()).item_type, Jet)
expect("JetsC subscript", ds().Select(lambda e: e.c()[0]).item_type, Jet)

if problems:
    print("C08 VIOLATED on the unchanged library")
    for p in problems:
        print("  " + p)
    sys.exit(1)
print("OK")
