"""C09 on the UNCHANGED library: 'whenever a query uses a method of a class registered with a
callback, at any nesting depth, the callback is invoked for that call site'.

Two layouts in which a call site on an object whose class is known is not followed, so the class
callback never fires and its MetaData is missing from the stream:
 1. the call site is in the body of a lambda that is called on the spot, (lambda x: x.pt())(j)
 2. the object is an element of a tuple that an earlier Select of the collection produced,
    .Select(lambda j: (j.pt(), j.lead())).Select(lambda d: d[1].pt())  (with a dictionary instead
    of the tuple the callback does fire)
"""

import ast
import sys
from typing import Iterable

from func_adl import ObjectStream, func_adl_callback

LOG = []


def make_cb(tag):
    def cb(s, a):
        LOG.append((tag, ast.unparse(a)))
        return s.MetaData({"m": tag, "site": ast.unparse(a)}), a

    return cb


@func_adl_callback(make_cb("Track"))
class Track:
    def pt(self) -> float: ...  # noqa


@func_adl_callback(make_cb("Jet"))
class Jet:
    def pt(self) -> float: ...  # noqa

    def lead(self) -> Track: ...  # noqa


class Event:
    def Jets(self) -> Iterable[Jet]: ...  # noqa


def chain_md(q):
    found = []
    node = q.args[0]
    while isinstance(node, ast.Call):
        if node.func.id == "MetaData":
            found.append(ast.literal_eval(node.args[1])["m"])
        node = node.args[0]
    return list(reversed(found))


bad = []
for text, expected in [
    # controls
    ("lambda e: e.Jets().Select(lambda j: j.pt())", ["Jet"]),
    (
        "lambda e: e.Jets().Select(lambda j: {'p': j.pt(), 'l': j.lead()})"
        ".Select(lambda d: d.l.pt())",
        ["Jet", "Jet", "Track"],
    ),
    # 1. lambda called on the spot
    ("lambda e: e.Jets().Select(lambda j: (lambda x: x.pt())(j))", ["Jet"]),
    # 2. element of a tuple made by an earlier Select
    (
        "lambda e: e.Jets().Select(lambda j: (j.pt(), j.lead())).Select(lambda d: d[1].pt())",
        ["Jet", "Jet", "Track"],
    ),
]:
    LOG.clear()
    ds = ObjectStream[Event](ast.Name(id="ds", ctx=ast.Load()), Event)
    q = ds.Select(text).query_ast
    fired = [t for t, _ in LOG]
    md = chain_md(q)
    ok = fired == expected and md == expected
    print(f"{'ok  ' if ok else 'FAIL'} {text}\n       fired {fired}  metadata {md}  expected {expected}")
    if not ok:
        bad.append(text)

if bad:
    print("C09 violated (call sites whose callbacks never fire):", bad)
    sys.exit(1)
print("OK")
