"""C04 on the UNCHANGED library: a captured variable on which the lambda calls a method
(`s.upper()`, `n.bit_length()`, `cfg.names.get(...)`) is neither replaced by its value nor
refused with ValueError: the query keeps the bare variable name, so it does not hold the
value the variable had at the call.

(visit_Call of _rewrite_captured_vars puts the original `func` back when it turned into a
constant holding a real function; the original `s.upper` still has the un-rewritten Name.)"""
import ast
import sys
import types

import func_adl
from func_adl import ObjectStream

ds = ObjectStream(ast.Name("ds", ast.Load()))
failures = []


def lambda_of(stream) -> ast.Lambda:
    q = stream.query_ast
    assert isinstance(q, ast.Call) and isinstance(q.args[1], ast.Lambda), ast.dump(q)
    return q.args[1]


def judge(label, build, free_name):
    try:
        stream = build()
    except ValueError:
        return  # refusing is allowed by the property
    lam = lambda_of(stream)
    if any(isinstance(n, ast.Name) and n.id == free_name for n in ast.walk(lam)):
        failures.append(
            f"{label}: captured variable {free_name!r} is still a name in the query, "
            f"no ValueError: {ast.unparse(lam)}"
        )


prefix = "AntiKt4"
n_bits = 5
cfg = types.SimpleNamespace(names={"jets": "AntiKt4EMTopoJets"})


def q_str_method():
    return ds.Select(lambda e: e.jets(prefix.upper()))


def q_int_method():
    return ds.Where(lambda e: e.n_tracks > n_bits.bit_length())


def q_attr_method():
    return ds.Select(lambda e: e.jets(cfg.names.get("jets")))


def q_control():
    return ds.Select(lambda e: e.jets(prefix))


judge("str method", q_str_method, "prefix")
judge("int method", q_int_method, "n_bits")
judge("method of an attribute", q_attr_method, "cfg")
judge("control (no method call)", q_control, "prefix")

# later rebinding: whatever would resolve `prefix` now gets another value than at the call
prefix = "other"

if failures:
    print("PROPERTY C04 VIOLATED by the unchanged library (%s)" % func_adl.__file__)
    for f in failures:
        print("  " + f)
    sys.exit(1)
print("OK")
