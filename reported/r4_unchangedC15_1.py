"""Unchanged library, C15 ("the list of all their dictionaries"): extract_metadata works in place,
so in a query in which one node object is used in two places (legal for python's ast, and what
one gets when the query_ast of one stream is put into two arguments of a call) the wrappers
below the shared node are stripped on the first visit and are not reported on the second one.
Two queries with the same ast.dump then give different dictionary lists.
Exit 0 and "OK" if both give the same answer.
"""
import ast
import sys

from func_adl.ast.meta_data import extract_metadata
from func_adl.util_ast import function_call


def main() -> int:
    jets = ast.parse("Select(MetaData(ds, {'k': 1}), lambda e: e.jets())", mode="eval").body
    shared = function_call("Zip", [jets, jets])  # the same node object twice
    plain = ast.parse(ast.unparse(shared), mode="eval").body  # same query, every node once
    assert ast.dump(shared) == ast.dump(plain)

    r_plain, md_plain = extract_metadata(plain)
    r_shared, md_shared = extract_metadata(shared)

    print("query:", ast.unparse(ast.parse(ast.unparse(r_plain))), "<-", md_plain, "/", md_shared)
    if md_plain != md_shared or ast.dump(r_plain) != ast.dump(r_shared):
        print(
            "the query shows two MetaData wrappers, but with a shared node only "
            f"{len(md_shared)} dictionary is reported: {md_shared} (expected {md_plain})"
        )
        return 1
    print("OK")
    return 0


if __name__ == "__main__":
    sys.exit(main())
