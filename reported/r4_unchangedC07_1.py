"""C07 on the UNCHANGED library: two kinds of declared signatures for which a typed method call
is not brought into full positional form although python accepts the call as written.

1. a method declared with @staticmethod: the first declared parameter is taken for the receiver,
   so the walk over the signature is one parameter short and trailing defaults are not filled in
   (j.st(1) stays j.st(1) instead of j.st(1, 9.0)).
2. a signature with *args / **kwargs: leaving them out (which is what python expects) raises
   ValueError("Argument rest is required").

Exit code 0 / "OK" if both behave as the property says, 1 otherwise.
"""

import ast
import logging
import sys
from typing import Iterable

from func_adl import ObjectStream

logging.disable(logging.CRITICAL)


class Jet:
    @staticmethod
    def st(x: float, y: float = 9.0) -> float: ...  # noqa

    def va(self, a: float = 1.0, *rest: float) -> float: ...  # noqa

    def kw(self, a: float = 1.0, **opts: float) -> float: ...  # noqa


class Event:
    def Jets(self, bank: str = "default") -> Iterable[Jet]: ...  # noqa


def emitted(text: str) -> str:
    ds = ObjectStream[Event](ast.Name("e", ast.Load()), Event)
    try:
        return ast.unparse(ds.Select(text).query_ast)
    except ValueError as e:
        return f"ValueError: {e}"


problems = []
for text, want in [
    # python: Jet().st(1) binds x=1, y=9.0
    ("lambda e: e.Jets().Select(lambda j: j.st(1))", "j.st(1, 9.0)"),
    ("lambda e: e.Jets().First().st(y=2, x=1)", ".st(1, 2)"),
    # python: Jet().va() binds a=1.0, rest=() ; Jet().kw() binds a=1.0, opts={}
    ("lambda e: e.Jets().Select(lambda j: j.va())", "j.va(1.0)"),
    ("lambda e: e.Jets().Select(lambda j: j.kw())", "j.kw(1.0)"),
]:
    got = emitted(text)
    if want not in got:
        problems.append(f"{text}\n      expected a call {want}, got: {got}")

if problems:
    print("C07 VIOLATED on the unchanged library:")
    for p in problems:
        print("  -", p)
    sys.exit(1)
print("OK")
