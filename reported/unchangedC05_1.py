"""C05 on the UNCHANGED library: a helper whose signature also has `*rest`, `**kw` or a
keyword-only parameter with a default is inlined as soon as the call covers its ordinary
parameters - the other parameters stay behind in the body as free names, so the recovered
lambda no longer computes what python computes (it raises NameError). Such a helper should
either get those parameters bound (empty tuple / dict / the default) or be left as a call.
"""

import ast
import sys

from func_adl.util_ast import parse_as_ast


def with_rest(x, *rest):
    return x + len(rest)


def with_kw(x, **kw):
    return x + len(kw)


def with_kwonly(x, *, n=2):
    return x * n


def top_rest(y):
    return with_rest(y)


def top_kw(y):
    return with_kw(y)


def top_kwonly(y):
    return with_kwonly(y)


failures = []
for f in (top_rest, top_kw, top_kwonly):
    recovered = parse_as_ast(f)
    code = compile(ast.fix_missing_locations(ast.Expression(recovered)), "<recovered>", "eval")
    for value in (0, 3, -4):
        want = f(value)
        try:
            got = eval(code, {})(value)
        except Exception as e:
            got = f"{type(e).__name__}: {e}"
        if got != want:
            failures.append(
                f"{f.__name__}: recovered `{ast.unparse(recovered)}` gives {got!r} for "
                f"{value!r}, python gives {want!r}"
            )
            break

if failures:
    print("C05 VIOLATED on the unchanged library")
    for msg in failures:
        print("  " + msg)
    sys.exit(1)
print("OK")
